// Body of the module `verif_casts` that tools/kani_unit.py appends to a SCRATCH COPY of rtmp/src/sessions/mod.rs
// (under #[cfg(any(kani, test))]; /repo itself is never touched).  Unit `casts`, properties C02 / C09 / C10.
//
// What this unit is for.  Stream ids, transaction ids and metadata numbers cross the wire as AMF0 Numbers: the sessions write
// `id as f64` and read `number as u32` (rtmp/src/sessions/{server,client}/mod.rs, rtmp/src/sessions/mod.rs).  Verus gives an
// executable float cast no meaning, so the Verus units name the casts (rewrite R15: `x as f64` -> `x.cast_f64()`, result ==
// the uninterpreted u32_as_f64(x)) and ASSUME exactly one arithmetic fact about them (vc/prelude/casts.rs.inc):
//     axiom_cast_exact:  for every x: u32,  f64_as_u32(u32_as_f64(x)) == x
// This unit is the GUARANTEE side of that assumption: Kani/CBMC decide the IEEE-754 binary64 conversion and Rust's
// saturating float-to-int cast bit-precisely, for ALL 2^32 values (loop-free, full domain: a proof, not a bounded check).
// The predicates are about the `as` operator of the language as compiled for the crate - there is no library function
// small enough to stand between (the casts sit inside session handlers that own HashMaps and Vec<..> tables).
// The f32 fact (frame rate: f32 -> f64 -> f32) is proved here too for every non-NaN value; the Verus side keeps it as a named
// hypothesis (cast_exact_f32) because Verus' spec equality on f32 is not IEEE equality.

pub fn p_u32_f64_u32_identity(x: u32) {
    vchk!("(x as f64) as u32 == x                         [ids survive u32 -> f64 -> u32]", (x as f64) as u32, x);
}
pub fn p_u32_as_f64_injective(a: u32, b: u32) {
    vchk!("(a as f64 == b as f64) == (a == b)             [distinct ids stay distinct as AMF0 Numbers]", (a as f64) == (b as f64), a == b);
}
pub fn p_u32_as_f64_value(x: u32) {
    // the Number on the wire is the integer itself: non-negative, at most 2^32-1, and equal to the exact u64 -> f64 conversion
    let f = x as f64;
    vchk!("0.0 <= x as f64 <= 4294967295.0", f >= 0.0 && f <= 4294967295.0, true);
    vchk!("x as f64 == (x as u64) as f64", f == (x as u64) as f64, true);
    vchk!("(x as f64) as u64 == x as u64", f as u64, x as u64);
}
pub fn p_f32_f64_f32_identity(bits: u32) {
    let x = f32::from_bits(bits);
    if !x.is_nan() {
        vchk!("((x as f64) as f32).to_bits() == x.to_bits()     [every non-NaN f32, including -0.0, subnormals, infinities]", ((x as f64) as f32).to_bits(), bits);
    } else {
        vchk!("a NaN stays a NaN through f32 -> f64 -> f32", ((x as f64) as f32).is_nan(), true);
    }
}
pub fn p_f64_as_u32_saturates(hi: u32, lo: u32) {
    // what `number as u32` does with a peer-supplied Number (Rust reference: saturating, NaN -> 0): never UB, never a panic
    let f = f64::from_bits(((hi as u64) << 32) | lo as u64);
    let r = f as u32;
    if f.is_nan() { vchk!("NaN as u32 == 0", r, 0u32); }
    else if f <= 0.0 { vchk!("a non-positive Number as u32 == 0", r, 0u32); }
    else if f >= 4294967295.0 { vchk!("a Number >= 2^32-1 as u32 == u32::MAX", r, u32::MAX); }
    else { vchk!("0 < f < 2^32-1: truncation toward zero, (f as u32) as f64 <= f < (f as u32) as f64 + 1", (r as f64) <= f && f < (r as f64) + 1.0, true); }
}
pub fn p_vacuity_u32_f32_u32_identity(x: u32) {
    // deliberately FALSE (f32 has a 24-bit significand: 16777217 does not survive): Kani must refute it
    vchk!("VACUITY-PROBE (x as f32) as u32 == x   [deliberately false]", (x as f32) as u32, x);
}
