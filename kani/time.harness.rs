// Body of the module `verif_time` that tools/kani_unit.py appends to a SCRATCH COPY of rtmp/src/time.rs
// (under #[cfg(any(kani, test))]; /repo itself is never touched).  Unit `time`, property C20.
//
//   (1) the oracle S-TIME, written from the statement of C20 -- not from the crate's constants or code;
//   (2) one predicate `p_<harness>(inputs...)` per harness of kani/time.toml, in ORDINARY Rust.
//       `vchk!(label, observed, expected)` is `assert!(observed == expected, label)` under Kani and a recorder
//       under `cargo test`: the very same predicate text is what Kani proves for ALL inputs and what the
//       witness replay evaluates on the REAL crate for the one concrete counterexample Kani returned.
//   The `#[kani::proof…]` wrappers (symbolic inputs, stub_verified attributes, reachability cover) and the
//   replay entry point are generated mechanically from kani/time.toml and follow this text.
use super::*;
use std::cmp::Ordering;

// ------------------------------------------------------------------------------------------------
// (1) oracle S-TIME  (C20: "exact modulo 2^32 … later exactly when between 1 and 2^31-1 ms ahead
//     of it modulo 2^32, including across the wrap")
// ------------------------------------------------------------------------------------------------
const TWO_POW_32: u64 = 4294967296;
const TWO_POW_31: u64 = 2147483648;

/// how far `a` is ahead of `b` on the 32-bit millisecond clock: (a - b) mod 2^32
pub fn ahead(a: u32, b: u32) -> u64 {
    ((a as u64) + TWO_POW_32 - (b as u64)) % TWO_POW_32
}
/// (a + b) mod 2^32
pub fn spec_add(a: u32, b: u32) -> u32 {
    (((a as u64) + (b as u64)) % TWO_POW_32) as u32
}
/// (a - b) mod 2^32
pub fn spec_sub(a: u32, b: u32) -> u32 {
    ahead(a, b) as u32
}
/// a is later than b  <=>  (a - b) mod 2^32 is in 1 ..= 2^31 - 1
pub fn spec_later(a: u32, b: u32) -> bool {
    let k = ahead(a, b);
    1 <= k && k <= TWO_POW_31 - 1
}
/// The order the statement determines.  `None` exactly on the antipodal slice (distance 2^31): the two
/// times differ and NEITHER is 1..=2^31-1 ahead of the other, so the statement gives no order there.
pub fn spec_order(a: u32, b: u32) -> Option<Ordering> {
    if a == b {
        Some(Ordering::Equal)
    } else if spec_later(a, b) {
        Some(Ordering::Greater)
    } else if spec_later(b, a) {
        Some(Ordering::Less)
    } else {
        None
    }
}
/// PIN, *not* from the statement: what the code does today on the antipodal slice (known finding K-C20):
/// the numerically larger value is the "earlier" one.  Pinned so that any OTHER change there is reported.
pub fn pinned_antipodal(a: u32, b: u32) -> Ordering {
    if a > b {
        Ordering::Less
    } else {
        Ordering::Greater
    }
}
/// statement where it decides, pin where it does not: the exact function `compare` is proved to compute
pub fn spec_cmp(a: u32, b: u32) -> Ordering {
    match spec_order(a, b) {
        Some(o) => o,
        None => pinned_antipodal(a, b),
    }
}
/// clause 1 of the contract of `compare` (statement)
pub fn cmp_matches_statement(a: u32, b: u32, r: Ordering) -> bool {
    match spec_order(a, b) {
        Some(o) => r == o,
        None => true,
    }
}
/// clause 2 of the contract of `compare` (pin of the antipodal slice)
pub fn cmp_matches_pin(a: u32, b: u32, r: Ordering) -> bool {
    match spec_order(a, b) {
        Some(_) => true,
        None => r == pinned_antipodal(a, b),
    }
}

// The two spec functions the Verus prelude vc/prelude/time.rs.inc ASSUMES for the operator impls, transcribed
// literally (Verus `int` arithmetic with Euclidean `%`  ->  i64 + rem_euclid; every intermediate fits):
//   pub open spec fn wadd(a: u32, b: u32) -> u32 { ((a as int + b as int) % 0x1_0000_0000) as u32 }
//   pub open spec fn wsub(a: u32, b: u32) -> u32 { ((a as int - b as int) % 0x1_0000_0000) as u32 }
pub fn wadd(a: u32, b: u32) -> u32 {
    ((a as i64 + b as i64).rem_euclid(0x1_0000_0000)) as u32
}
pub fn wsub(a: u32, b: u32) -> u32 {
    ((a as i64 - b as i64).rem_euclid(0x1_0000_0000)) as u32
}

// ------------------------------------------------------------------------------------------------
// (2) predicates, one per harness
// ------------------------------------------------------------------------------------------------

// ---- contracts (proof_for_contract): the injected #[kani::ensures] clauses are checked on the real bodies;
//      the explicit vchk! states the same thing with a readable label and gives the replay its predicate.
pub fn p_contract_add_values(a: u32, b: u32) {
    vchk!("add_values(a, b) == (a + b) mod 2^32", add_values(a, b), spec_add(a, b));
}
pub fn p_contract_sub_values(a: u32, b: u32) {
    vchk!("sub_values(a, b) == (a - b) mod 2^32", sub_values(a, b), spec_sub(a, b));
}
pub fn p_contract_compare(a: u32, b: u32) {
    let r = compare(&a, &b);
    match spec_order(a, b) {
        Some(o) => vchk!("compare(a, b): Equal iff a == b; Greater iff a is 1..=2^31-1 ahead of b mod 2^32; Less iff b is 1..=2^31-1 ahead of a", r, o),
        None => vchk!("PIN compare(a, b) at distance exactly 2^31: numerically larger value is the earlier one (today's behaviour, K-C20)", r, pinned_antipodal(a, b)),
    }
}

// ---- arithmetic through the public operators (add_values / sub_values replaced by their verified contracts)
pub fn p_arith_exact_mod_2_32(a: u32, d: u32) {
    let t = RtmpTimestamp::new(a);
    let td = RtmpTimestamp::new(d);
    vchk!("(t + d).value == (a + d) mod 2^32          [Add<u32>]", (t + d).value, spec_add(a, d));
    vchk!("(t + td).value == (a + d) mod 2^32         [Add<RtmpTimestamp>]", (t + td).value, spec_add(a, d));
    vchk!("(t - d).value == (a - d) mod 2^32          [Sub<u32>]", (t - d).value, spec_sub(a, d));
    vchk!("(t - td).value == (a - d) mod 2^32         [Sub<RtmpTimestamp>]", (t - td).value, spec_sub(a, d));
}
pub fn p_inverse_laws_u32_operand(a: u32, d: u32) {
    let t = RtmpTimestamp::new(a);
    vchk!("(t + d) - d == t      [u32 operand]", ((t + d) - d).value, a);
    vchk!("(t - d) + d == t      [u32 operand]", ((t - d) + d).value, a);
}
pub fn p_inverse_laws_timestamp_operand(a: u32, d: u32) {
    let t = RtmpTimestamp::new(a);
    let td = RtmpTimestamp::new(d);
    vchk!("(t + td) - td == t    [RtmpTimestamp operand]", ((t + td) - td).value, a);
    vchk!("(t - td) + td == t    [RtmpTimestamp operand]", ((t - td) + td).value, a);
}
pub fn p_inverse_laws_mixed_operands(a: u32, d: u32) {
    let t = RtmpTimestamp::new(a);
    let td = RtmpTimestamp::new(d);
    vchk!("(t + d) - td == t     [mixed operands]", ((t + d) - td).value, a);
    vchk!("(t - td) + d == t     [mixed operands]", ((t - td) + d).value, a);
    vchk!("(t + d) - t == d      [the difference recovers the distance]", ((t + d) - t).value, d);
}

// ---- ordering, on the REAL compare (Kani 0.68 cannot stub it: std::cmp::Ordering has no kani::Arbitrary).
//      Each harness makes at most four calls into compare (CBMC's cost grows faster than linearly with the number of
//      calls), states every result against the oracle first ("== oracle") and then the law itself.
pub fn p_order_agrees_with_equality(a: u32, b: u32) {
    let ta = RtmpTimestamp::new(a);
    let tb = RtmpTimestamp::new(b);
    let eq = ta == tb;
    vchk!("ta == tb  <=>  a == b", eq, a == b);
    vchk!("ta != tb  <=>  a != b", ta != tb, a != b);
    let c = ta.cmp(&tb);
    vchk!("ta.cmp(&tb) == oracle", c, spec_cmp(a, b));
    vchk!("ta.cmp(&tb) == Equal  <=>  ta == tb", c == Ordering::Equal, eq);
    let pc = ta.partial_cmp(&tb);
    vchk!("ta.partial_cmp(&tb) == Some(ta.cmp(&tb))", pc, Some(c));
}
pub fn p_order_lt_le_consistent_with_equality(a: u32, b: u32) {
    let ta = RtmpTimestamp::new(a);
    let tb = RtmpTimestamp::new(b);
    let s = spec_cmp(a, b);
    let eq = ta == tb;
    let lt = ta < tb;
    vchk!("(ta < tb) == oracle", lt, s == Ordering::Less);
    let le = ta <= tb;
    vchk!("(ta <= tb) == oracle", le, s != Ordering::Greater);
    vchk!("ta <= tb  <=>  ta < tb || ta == tb", le, lt || eq);
    vchk!("never (ta < tb && ta == tb)", lt && eq, false);
}
pub fn p_order_gt_ge_consistent_with_equality(a: u32, b: u32) {
    let ta = RtmpTimestamp::new(a);
    let tb = RtmpTimestamp::new(b);
    let s = spec_cmp(a, b);
    let eq = ta == tb;
    let gt = ta > tb;
    vchk!("(ta > tb) == oracle", gt, s == Ordering::Greater);
    let ge = ta >= tb;
    vchk!("(ta >= tb) == oracle", ge, s != Ordering::Less);
    vchk!("ta >= tb  <=>  ta > tb || ta == tb", ge, gt || eq);
    vchk!("never (ta > tb && ta == tb)", gt && eq, false);
}
pub fn p_order_antisymmetric_cmp(a: u32, b: u32) {
    let ta = RtmpTimestamp::new(a);
    let tb = RtmpTimestamp::new(b);
    let ab = ta.cmp(&tb);
    vchk!("ta.cmp(&tb) == oracle(a, b)", ab, spec_cmp(a, b));
    let ba = tb.cmp(&ta);
    vchk!("tb.cmp(&ta) == oracle(b, a)", ba, spec_cmp(b, a));
    vchk!("ta.cmp(&tb) == tb.cmp(&ta).reverse()", ab, ba.reverse());
}
pub fn p_order_antisymmetric_lt_gt(a: u32, b: u32) {
    let ta = RtmpTimestamp::new(a);
    let tb = RtmpTimestamp::new(b);
    let lt_ab = ta < tb;
    vchk!("(ta < tb) == oracle", lt_ab, spec_cmp(a, b) == Ordering::Less);
    let gt_ba = tb > ta;
    vchk!("(tb > ta) == oracle", gt_ba, spec_cmp(b, a) == Ordering::Greater);
    let lt_ba = tb < ta;
    vchk!("(tb < ta) == oracle", lt_ba, spec_cmp(b, a) == Ordering::Less);
    let gt_ab = ta > tb;
    vchk!("(ta > tb) == oracle", gt_ab, spec_cmp(a, b) == Ordering::Greater);
    vchk!("ta < tb  <=>  tb > ta", lt_ab, gt_ba);
    vchk!("ta > tb  <=>  tb < ta", gt_ab, lt_ba);
    vchk!("never (ta < tb && tb < ta)", lt_ab && lt_ba, false);
    vchk!("never (ta > tb && tb > ta)", gt_ab && gt_ba, false);
}
pub fn p_order_antisymmetric_le(a: u32, b: u32) {
    let ta = RtmpTimestamp::new(a);
    let tb = RtmpTimestamp::new(b);
    let le_ab = ta <= tb;
    vchk!("(ta <= tb) == oracle", le_ab, spec_cmp(a, b) != Ordering::Greater);
    let le_ba = tb <= ta;
    vchk!("(tb <= ta) == oracle", le_ba, spec_cmp(b, a) != Ordering::Greater);
    vchk!("ta <= tb && tb <= ta  ==>  ta == tb", !(le_ab && le_ba) || ta == tb, true);
}

// `later` exactly for 1 <= d <= 2^31-1, a+d versus a, for every a (so also across the wrap).
// The slice d == 2^31 is NOT covered by the three harnesses below: the statement's obligation on it is the separate
// harness known_K_C20_antipodal_pair_must_be_unordered (fails: known finding) and today's behaviour on it is pinned by
// pin_antipodal_behaviour_today.  Every other (a, d) in u32 x u32 is covered.
pub fn p_later_exactly_within_window(a: u32, d: u32) {
    if d as u64 == TWO_POW_31 {
        return;
    }
    let ta = RtmpTimestamp::new(a);
    let tb = ta + d;
    let in_window = 1 <= d && (d as u64) <= TWO_POW_31 - 1;
    vchk!("the window test 1 <= d <= 2^31-1 is the oracle's `later(a + d, a)`", in_window, spec_later(spec_add(a, d), a));
    vchk!("(a + d) > a   <=>  1 <= d <= 2^31-1", tb > ta, in_window);
    vchk!("a < (a + d)   <=>  1 <= d <= 2^31-1", ta < tb, in_window);
}
pub fn p_earlier_exactly_beyond_window(a: u32, d: u32) {
    if d as u64 == TWO_POW_31 {
        return;
    }
    let ta = RtmpTimestamp::new(a);
    let tb = ta + d;
    let behind = (d as u64) > TWO_POW_31; // then a is 2^32 - d, i.e. 1..=2^31-1, ahead of a + d
    vchk!("the test d > 2^31 is the oracle's `later(a, a + d)`", behind, spec_later(a, spec_add(a, d)));
    vchk!("(a + d) < a   <=>  d > 2^31   (a is then 2^32-d in 1..=2^31-1 ahead)", tb < ta, behind);
    vchk!("a > (a + d)   <=>  d > 2^31", ta > tb, behind);
}
pub fn p_window_order_is_the_statements(a: u32, d: u32) {
    if d as u64 == TWO_POW_31 {
        return;
    }
    let ta = RtmpTimestamp::new(a);
    let tb = ta + d;
    vchk!("(a + d) == a  <=>  d == 0", tb == ta, d == 0);
    vchk!("(a + d).cmp(a) is the order the statement determines", Some(tb.cmp(&ta)), spec_order(spec_add(a, d), a));
    vchk!("a.cmp(a + d) is the order the statement determines", Some(ta.cmp(&tb)), spec_order(a, spec_add(a, d)));
}

// ---- comparisons against plain integers agree with comparisons between timestamps (both directions);
//      one harness per operator: timestamp/timestamp, timestamp/u32, u32/timestamp.
pub fn p_u32_operand_impls_agree_partial_cmp(a: u32, b: u32) {
    let ta = RtmpTimestamp::new(a);
    let tb = RtmpTimestamp::new(b);
    let s = Some(spec_cmp(a, b));
    let tt = ta.partial_cmp(&tb);
    vchk!("ta.partial_cmp(&tb) == oracle", tt, s);
    let tu = ta.partial_cmp(&b);
    vchk!("ta.partial_cmp(&b) == oracle                    [PartialOrd<u32> for RtmpTimestamp]", tu, s);
    let ut = a.partial_cmp(&tb);
    vchk!("a.partial_cmp(&tb) == oracle                    [PartialOrd<RtmpTimestamp> for u32]", ut, s);
    vchk!("ta.partial_cmp(&b) == ta.partial_cmp(&tb)", tu, tt);
    vchk!("a.partial_cmp(&tb) == ta.partial_cmp(&tb)", ut, tt);
}
pub fn p_u32_operand_impls_agree_lt(a: u32, b: u32) {
    let ta = RtmpTimestamp::new(a);
    let tb = RtmpTimestamp::new(b);
    let s = spec_cmp(a, b) == Ordering::Less;
    let tt = ta < tb;
    vchk!("(ta < tb) == oracle", tt, s);
    let tu = ta < b;
    vchk!("(ta < b) == oracle", tu, s);
    let ut = a < tb;
    vchk!("(a < tb) == oracle", ut, s);
    vchk!("(ta < b) == (ta < tb)", tu, tt);
    vchk!("(a < tb) == (ta < tb)", ut, tt);
}
pub fn p_u32_operand_impls_agree_le(a: u32, b: u32) {
    let ta = RtmpTimestamp::new(a);
    let tb = RtmpTimestamp::new(b);
    let s = spec_cmp(a, b) != Ordering::Greater;
    let tt = ta <= tb;
    vchk!("(ta <= tb) == oracle", tt, s);
    let tu = ta <= b;
    vchk!("(ta <= b) == oracle", tu, s);
    let ut = a <= tb;
    vchk!("(a <= tb) == oracle", ut, s);
    vchk!("(ta <= b) == (ta <= tb)", tu, tt);
    vchk!("(a <= tb) == (ta <= tb)", ut, tt);
}
pub fn p_u32_operand_impls_agree_gt(a: u32, b: u32) {
    let ta = RtmpTimestamp::new(a);
    let tb = RtmpTimestamp::new(b);
    let s = spec_cmp(a, b) == Ordering::Greater;
    let tt = ta > tb;
    vchk!("(ta > tb) == oracle", tt, s);
    let tu = ta > b;
    vchk!("(ta > b) == oracle", tu, s);
    let ut = a > tb;
    vchk!("(a > tb) == oracle", ut, s);
    vchk!("(ta > b) == (ta > tb)", tu, tt);
    vchk!("(a > tb) == (ta > tb)", ut, tt);
}
pub fn p_u32_operand_impls_agree_ge(a: u32, b: u32) {
    let ta = RtmpTimestamp::new(a);
    let tb = RtmpTimestamp::new(b);
    let s = spec_cmp(a, b) != Ordering::Less;
    let tt = ta >= tb;
    vchk!("(ta >= tb) == oracle", tt, s);
    let tu = ta >= b;
    vchk!("(ta >= b) == oracle", tu, s);
    let ut = a >= tb;
    vchk!("(a >= tb) == oracle", ut, s);
    vchk!("(ta >= b) == (ta >= tb)", tu, tt);
    vchk!("(a >= tb) == (ta >= tb)", ut, tt);
}
pub fn p_u32_operand_impls_agree_eq_ne(a: u32, b: u32) {
    let ta = RtmpTimestamp::new(a);
    let tb = RtmpTimestamp::new(b);
    vchk!("(ta == b) == (ta == tb)                         [PartialEq<u32> for RtmpTimestamp]", ta == b, ta == tb);
    vchk!("(ta != b) == (ta != tb)", ta != b, ta != tb);
    vchk!("(a == tb) == (ta == tb)                         [PartialEq<RtmpTimestamp> for u32]", a == tb, ta == tb);
    vchk!("(a != tb) == (ta != tb)", a != tb, ta != tb);
    vchk!("(ta == b) == (a == b)", ta == b, a == b);
    vchk!("(a == tb) == (a == b)", a == tb, a == b);
}

pub fn p_new_and_set(a: u32, b: u32) {
    let t = RtmpTimestamp::new(a);
    vchk!("RtmpTimestamp::new(a).value == a", t.value, a);
    let mut u = t;
    u.set(b);
    vchk!("after set(b): value == b", u.value, b);
    vchk!("after set(b): equals RtmpTimestamp::new(b)", u == RtmpTimestamp::new(b), true);
    vchk!("set does not touch the copy it was made from", t.value, a);
}

// ---- guarantee side of the assume/guarantee link with the Verus units (real code, nothing stubbed)
pub fn p_guarantee_verus_prelude_time_ops(a: u32, b: u32) {
    let ta = RtmpTimestamp::new(a);
    let tb = RtmpTimestamp::new(b);
    vchk!("GUARANTEE for vc/prelude/time.rs.inc: (RtmpTimestamp{a} + b: u32).value == wadd(a, b)", (ta + b).value, wadd(a, b));
    vchk!("GUARANTEE for vc/prelude/time.rs.inc: (RtmpTimestamp{a} - RtmpTimestamp{b}).value == wsub(a, b)", (ta - tb).value, wsub(a, b));
    vchk!("wadd is (a + b) mod 2^32", wadd(a, b), spec_add(a, b));
    vchk!("wsub is (a - b) mod 2^32", wsub(a, b), spec_sub(a, b));
}

// ---- known finding K-C20: the obligation exactly as the statement gives it, on the slice d == 2^31.
//      "later exactly when 1..=2^31-1 ahead": at distance 2^31 neither time is later than the other.
//      FAILS on today's code (a total Ord has to order the pair somehow).  Real code, nothing stubbed.
pub fn p_known_K_C20_antipodal_pair_must_be_unordered(a: u32) {
    let ta = RtmpTimestamp::new(a);
    let tb = ta + 2147483648u32;
    vchk!("K-C20 a + 2^31 is not 1..=2^31-1 ahead of a, so it must not compare as later", tb > ta, false);
    vchk!("K-C20 a is not 1..=2^31-1 ahead of a + 2^31, so it must not compare as later", ta > tb, false);
}

// ---- pin of today's behaviour on that slice, through every comparison impl.  Real code, nothing stubbed.
pub fn p_pin_antipodal_behaviour_today(a: u32) {
    let b = spec_add(a, 2147483648u32);
    let ta = RtmpTimestamp::new(a);
    let tb = RtmpTimestamp::new(b);
    let want = pinned_antipodal(a, b);
    vchk!("PIN t + 2^31 lands on the antipode", (ta + 2147483648u32).value, b);
    vchk!("PIN the antipode is not equal", ta == tb, false);
    vchk!("PIN ta.cmp(&tb): the numerically larger value is the earlier one", ta.cmp(&tb), want);
    vchk!("PIN tb.cmp(&ta) is the reverse", tb.cmp(&ta), want.reverse());
    vchk!("PIN ta < tb  <=>  a > b", ta < tb, a > b);
    vchk!("PIN ta > tb  <=>  a < b", ta > tb, a < b);
}
pub fn p_pin_antipodal_behaviour_today_u32_operands(a: u32) {
    let b = spec_add(a, 2147483648u32);
    let ta = RtmpTimestamp::new(a);
    let tb = RtmpTimestamp::new(b);
    let want = pinned_antipodal(a, b);
    vchk!("PIN ta.partial_cmp(&tb)", ta.partial_cmp(&tb), Some(want));
    vchk!("PIN ta.partial_cmp(&b)   [u32 operand]", ta.partial_cmp(&b), Some(want));
    vchk!("PIN a.partial_cmp(&tb)   [u32 receiver]", a.partial_cmp(&tb), Some(want));
}

// ---- vacuity probes: deliberately FALSE claims that Kani must refute on every run
pub fn p_vacuity_stub_add_values(a: u32, b: u32) {
    // behind the verified stub: refuted only if the assumed postcondition of add_values is satisfiable
    let r = add_values(a, b);
    vchk!("VACUITY-PROBE deliberately false: the stub of add_values never returns (a + b) mod 2^32", r != spec_add(a, b), true);
}
pub fn p_vacuity_stub_sub_values(a: u32, b: u32) {
    let r = sub_values(a, b);
    vchk!("VACUITY-PROBE deliberately false: the stub of sub_values never returns (a - b) mod 2^32", r != spec_sub(a, b), true);
}
pub fn p_vacuity_compare_window_off_by_one(a: u32, b: u32) {
    // wrong oracle: window 1..=2^31 instead of 1..=2^31-1; differs from the real compare on half of the antipodal slice
    let k = ahead(a, b);
    let wrong = if k == 0 {
        Ordering::Equal
    } else if k <= TWO_POW_31 {
        Ordering::Greater
    } else {
        Ordering::Less
    };
    vchk!("VACUITY-PROBE deliberately false: compare implements the window 1..=2^31", compare(&a, &b), wrong);
}
