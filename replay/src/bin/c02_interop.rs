// C02 two-session replay: a REAL ClientSession talking to a REAL ServerSession (whole packets, in order).
//   c02_interop [app]      default app "live/"  -> demonstrates deviation D-C02-slash (exit 1 = the names differ)
// Also walks the whole workflow the interop lemmas describe (connect, publish, metadata/video/audio, stop; play side) and
// asserts every event the lemmas promise, so it doubles as a concrete cross-check of the lemma statements.
extern crate bytes; extern crate rml_rtmp;
use bytes::Bytes;
use rml_rtmp::sessions::*;
use rml_rtmp::time::RtmpTimestamp;

fn to_server(s: &mut ServerSession, rs: Vec<ClientSessionResult>) -> Vec<ServerSessionResult> {
    let mut out = Vec::new();
    for r in rs { if let ClientSessionResult::OutboundResponse(p) = r { out.extend(s.handle_input(&p.bytes).expect("server handle_input")); } }
    out
}
fn to_client(c: &mut ClientSession, rs: Vec<ServerSessionResult>) -> Vec<ClientSessionResult> {
    let mut out = Vec::new();
    for r in rs { if let ServerSessionResult::OutboundResponse(p) = r { out.extend(c.handle_input(&p.bytes).expect("client handle_input")); } }
    out
}
fn sev(rs: &[ServerSessionResult]) -> Vec<&ServerSessionEvent> { rs.iter().filter_map(|r| if let ServerSessionResult::RaisedEvent(e) = r { Some(e) } else { None }).collect() }
fn cev(rs: &[ClientSessionResult]) -> Vec<&ClientSessionEvent> { rs.iter().filter_map(|r| if let ClientSessionResult::RaisedEvent(e) = r { Some(e) } else { None }).collect() }

fn main() {
    let app = std::env::args().nth(1).unwrap_or("live/".to_string());
    let (mut s, init) = ServerSession::new(ServerSessionConfig::new()).unwrap();
    let (mut c, _) = ClientSession::new(ClientSessionConfig::new()).unwrap();
    let _ = to_client(&mut c, init);
    // (a) connect
    let r = to_server(&mut s, vec![c.request_connection(app.clone()).unwrap()]);
    let (id, server_app) = match sev(&r)[..] { [ServerSessionEvent::ConnectionRequested { request_id, app_name }] => (*request_id, app_name.clone()), _ => panic!("no ConnectionRequested") };
    println!("client requested app {:?}; server raised ConnectionRequested for {:?}", app, server_app);
    let r = to_client(&mut c, s.accept_request(id).unwrap());
    assert!(cev(&r).iter().any(|e| **e == ClientSessionEvent::ConnectionRequestAccepted));
    let r2 = to_server(&mut s, r); assert!(sev(&r2).is_empty() || true);
    // (b) publish
    let r = to_server(&mut s, vec![c.request_publishing("key1".to_string(), PublishRequestType::Live).unwrap()]);
    let r = to_client(&mut c, r);                       // `_result` -> publish command
    let r = to_server(&mut s, r);
    let id = match sev(&r)[..] { [ServerSessionEvent::PublishStreamRequested { request_id, app_name, stream_key, mode }] => {
        assert_eq!(app_name, &server_app); assert_eq!(stream_key, "key1"); assert_eq!(*mode, PublishMode::Live); *request_id }, _ => panic!("no PublishStreamRequested") };
    let r = to_client(&mut c, s.accept_request(id).unwrap());
    assert!(cev(&r).iter().any(|e| **e == ClientSessionEvent::PublishRequestAccepted));
    // (c) media + metadata
    let mut md = StreamMetadata::new();
    md.video_width = Some(1920); md.video_height = Some(1080); md.video_bitrate_kbps = Some(4_000_000_000); md.video_frame_rate = Some(29.97);
    md.audio_is_stereo = Some(true); md.encoder = Some("enc 1.0".to_string()); md.audio_channels = Some(u32::max_value());
    let r = to_server(&mut s, vec![c.publish_metadata(&md).unwrap()]);
    match sev(&r)[..] { [ServerSessionEvent::StreamMetadataChanged { app_name, stream_key, metadata }] => {
        assert_eq!(app_name, &server_app); assert_eq!(stream_key, "key1"); assert_eq!(metadata, &md); }, _ => panic!("metadata: {:?}", r.len()) };
    let data = Bytes::from(vec![7u8; 70_000]);
    let r = to_server(&mut s, vec![c.publish_video_data(data.clone(), RtmpTimestamp::new(0xFFFF_FFF0), false).unwrap()]);
    match sev(&r)[..] { [ServerSessionEvent::VideoDataReceived { app_name, stream_key, data: d, timestamp }] => {
        assert_eq!(app_name, &server_app); assert_eq!(stream_key, "key1"); assert_eq!(d, &data); assert_eq!(timestamp.value, 0xFFFF_FFF0); }, _ => panic!("video") };
    let r = to_server(&mut s, vec![c.publish_audio_data(Bytes::new(), RtmpTimestamp::new(5), false).unwrap()]);
    match sev(&r)[..] { [ServerSessionEvent::AudioDataReceived { data: d, timestamp, .. }] => { assert_eq!(d.len(), 0); assert_eq!(timestamp.value, 5); }, _ => panic!("audio") };
    // (d) stop
    let r = to_server(&mut s, c.stop_publishing().unwrap());
    match sev(&r)[..] { [ServerSessionEvent::PublishStreamFinished { app_name, stream_key }] => { assert_eq!(app_name, &server_app); assert_eq!(stream_key, "key1"); }, _ => panic!("finished") };
    // (b') play, (c') server -> client media
    let r = to_server(&mut s, vec![c.request_playback("key2".to_string()).unwrap()]);
    let r = to_client(&mut c, r);
    let r = to_server(&mut s, r);
    let (id, sid) = match sev(&r)[..] { [ServerSessionEvent::PlayStreamRequested { request_id, app_name, stream_key, stream_id, .. }] => {
        assert_eq!(app_name, &server_app); assert_eq!(stream_key, "key2"); (*request_id, *stream_id) }, _ => panic!("no PlayStreamRequested") };
    let r = to_client(&mut c, s.accept_request(id).unwrap());
    assert!(cev(&r).iter().any(|e| **e == ClientSessionEvent::PlaybackRequestAccepted));
    let p = s.send_metadata(sid, &md).unwrap();
    let r = c.handle_input(&p.bytes).unwrap();
    match cev(&r)[..] { [ClientSessionEvent::StreamMetadataReceived { metadata }] => assert_eq!(metadata, &md), _ => panic!("client metadata") };
    let p = s.send_video_data(sid, data.clone(), RtmpTimestamp::new(9), false).unwrap();
    match cev(&c.handle_input(&p.bytes).unwrap())[..] { [ClientSessionEvent::VideoDataReceived { data: d, timestamp }] => { assert_eq!(d, &data); assert_eq!(timestamp.value, 9); }, _ => panic!("client video") };
    let r = to_server(&mut s, c.stop_playback().unwrap());
    match sev(&r)[..] { [ServerSessionEvent::PlayStreamFinished { app_name, stream_key }] => { assert_eq!(app_name, &server_app); assert_eq!(stream_key, "key2"); }, _ => panic!("play finished") };
    println!("workflow completed: connect, publish(key1)+metadata+video+audio, stop, play(key2)+metadata+video, stop");
    if server_app != app {
        println!("D-C02-slash REPRODUCED: every server event is tagged {:?}, the client believes it is connected to {:?}", server_app, app);
        std::process::exit(1);
    }
}
