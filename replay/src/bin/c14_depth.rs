// replay for C14: nested arrays, decoded on a thread with a small fixed stack, in a child-process-friendly way
// usage: c14_depth <depth> <stack_kib>
use std::io::Cursor;
fn main() {
    let a: Vec<String> = std::env::args().collect();
    let depth: usize = a[1].parse().unwrap();
    let stack: usize = a[2].parse().unwrap();
    let mut bytes = Vec::new();
    for _ in 0..depth { bytes.extend_from_slice(&[0x0A, 0, 0, 0, 1]); }
    bytes.push(5);
    let h = std::thread::Builder::new().stack_size(stack * 1024).spawn(move || {
        let mut c = Cursor::new(bytes);
        let r = rml_amf0::deserialize(&mut c);
        match r { Ok(v) => { println!("OK values={}", v.len()); std::mem::forget(v); } Err(e) => println!("ERR {}", e) }
    }).unwrap();
    h.join().unwrap();
}
