// replay for K-C16 on the real crate: conformant interleaving A.chunk0 B.chunk0 A.chunk1 (RTMP 5.3.1 allows it).
// Expected by the property: B then A delivered intact. Observed: error (or mixed payload).  exit 1 = defect reproduced.
use rml_rtmp::chunk_io::ChunkDeserializer;
fn hdr0(csid: u8, ts: u32, len: u32, ty: u8, msid: u32) -> Vec<u8> {
    let mut v = vec![csid]; // fmt 0, 1-byte form
    v.extend_from_slice(&ts.to_be_bytes()[1..]);
    v.extend_from_slice(&len.to_be_bytes()[1..]);
    v.push(ty);
    v.extend_from_slice(&msid.to_le_bytes());
    v
}
fn main() {
    let a: Vec<u8> = (0..200u32).map(|i| i as u8).collect();
    let b: Vec<u8> = vec![0xBB; 50];
    let mut bytes = hdr0(3, 10, 200, 9, 1);
    bytes.extend_from_slice(&a[..128]);
    bytes.extend(hdr0(4, 11, 50, 8, 1));
    bytes.extend_from_slice(&b);
    bytes.push(0xC3); // fmt 3, csid 3
    bytes.extend_from_slice(&a[128..]);
    let mut d = ChunkDeserializer::new();
    let mut out = Vec::new();
    let mut first = true;
    loop {
        let r = std::panic::catch_unwind(std::panic::AssertUnwindSafe(|| d.get_next_message(if first { &bytes } else { &[] })));
        first = false;
        match r {
            Ok(Ok(Some(m))) => out.push((m.type_id, m.data.to_vec())),
            Ok(Ok(None)) => break,
            Ok(Err(e)) => { println!("DEFECT-REPRODUCED error: {}", e); std::process::exit(1); }
            Err(_) => { println!("DEFECT-REPRODUCED panic"); std::process::exit(1); }
        }
    }
    if out.len() == 2 && out.iter().any(|(t, d)| *t == 9 && *d == a) && out.iter().any(|(t, d)| *t == 8 && *d == b) {
        println!("OK both messages intact"); std::process::exit(0);
    }
    println!("DEFECT-REPRODUCED wrong messages: {:?}", out.iter().map(|(t, d)| (*t, d.len())).collect::<Vec<_>>());
    std::process::exit(1);
}
