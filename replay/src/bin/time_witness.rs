// time_witness: bounded stand-in for unit `time` when Kani cannot analyse the changed text (e.g. the signature of a contracted
// helper changed).  Public API of rml_rtmp::time::RtmpTimestamp only, on a boundary grid of u32 pairs, against the statement of
// C20: + and - are arithmetic modulo 2^32 and inverse to each other; one timestamp is later than another exactly when it is
// 1..2^31-1 ms ahead on the 2^32 clock; ==, cmp, partial_cmp, <, > and the mixed u32 comparisons agree with that order.
// Pairs at distance exactly 2^31 are skipped: that slice is the listed known finding K-C20 (pinned by the Kani unit).
extern crate rml_rtmp;
use rml_rtmp::time::RtmpTimestamp;
use std::cmp::Ordering;
fn fail(s: String) -> ! { println!("WITNESS [c20] {}", s); std::process::exit(1) }
fn expect(a: u32, b: u32) -> Ordering { let d = a.wrapping_sub(b); if d == 0 { Ordering::Equal } else if d < 0x8000_0000 { Ordering::Greater } else { Ordering::Less } }
fn main() {
    std::panic::set_hook(Box::new(|_| {}));
    let mut grid: Vec<u32> = vec![];
    for base in [0u32, 1, 2, 1000, 0xFF_FFFE, 0xFF_FFFF, 0x100_0000, 0x7FFF_FFFE, 0x7FFF_FFFF, 0x8000_0000, 0x8000_0001, 0xFFFF_FFFD, 0xFFFF_FFFE, 0xFFFF_FFFF, 0x1234_5678, 0xDEAD_BEEF] {
        for d in [0u32, 1, 2, 5, 6] { grid.push(base.wrapping_add(d)); grid.push(base.wrapping_sub(d)); }
    }
    grid.sort(); grid.dedup();
    for &a in &grid { for &b in &grid {
        let r = std::panic::catch_unwind(|| {
            let (ta, tb) = (RtmpTimestamp::new(a), RtmpTimestamp::new(b));
            // arithmetic modulo 2^32, through every operator form, and the results behave like freshly made timestamps
            let sums = [(ta + tb, "ts + ts"), (ta + b, "ts + u32")];
            for (s, how) in sums.iter() {
                if s.value != a.wrapping_add(b) { fail(format!("{} : {} + {} gave {}, expected {} (mod 2^32)", how, a, b, s.value, a.wrapping_add(b))); }
                if !(*s == RtmpTimestamp::new(a.wrapping_add(b))) || s.cmp(&RtmpTimestamp::new(a.wrapping_add(b))) != Ordering::Equal { fail(format!("{} : the timestamp {} + {} (value {}) does not compare equal to a timestamp made from that value", how, a, b, s.value)); }
                if (*s - tb).value != a || (*s - b).value != a || !((*s - tb) == ta) { fail(format!("{} : ({} + {}) - {} gave {} / {}, expected {}", how, a, b, b, (*s - tb).value, (*s - b).value, a)); }
            }
            let diffs = [(ta - tb, "ts - ts"), (ta - b, "ts - u32")];
            for (s, how) in diffs.iter() {
                if s.value != a.wrapping_sub(b) { fail(format!("{} : {} - {} gave {}, expected {} (mod 2^32)", how, a, b, s.value, a.wrapping_sub(b))); }
                if !(*s == RtmpTimestamp::new(a.wrapping_sub(b))) { fail(format!("{} : the timestamp {} - {} (value {}) does not compare equal to a timestamp made from that value", how, a, b, s.value)); }
                if (*s + tb).value != a || !((*s + tb) == ta) { fail(format!("{} : ({} - {}) + {} gave {}, expected {}", how, a, b, b, (*s + tb).value, a)); }
            }
            let mut tc = RtmpTimestamp::new(b); tc.set(a); if tc.value != a || !(tc == ta) { fail(format!("set({}) on a timestamp of {} gave {}", a, b, tc.value)); }
            // equality
            if (ta == tb) != (a == b) || (ta == b) != (a == b) || (a == tb) != (a == b) { fail(format!("== for {} and {}: ts==ts {}, ts==u32 {}, u32==ts {}, expected {}", a, b, ta == tb, ta == b, a == tb, a == b)); }
            if a.wrapping_sub(b) == 0x8000_0000 { return; }      // K-C20: the antipodal slice is a listed known finding
            let e = expect(a, b);
            let got = [(ta.cmp(&tb), "cmp"), (ta.partial_cmp(&tb).unwrap_or(Ordering::Equal), "partial_cmp"), (ta.partial_cmp(&b).unwrap_or(Ordering::Equal), "ts.partial_cmp(u32)"), (a.partial_cmp(&tb).unwrap_or(Ordering::Equal), "u32.partial_cmp(ts)")];
            for (g, how) in got.iter() { if *g != e { fail(format!("{} orders {} against {} as {:?}; {} is {} ms ahead of {} on the 2^32 clock, expected {:?}", how, a, b, g, a, a.wrapping_sub(b), b, e)); } }
            if ta.partial_cmp(&tb).is_none() || ta.partial_cmp(&b).is_none() || a.partial_cmp(&tb).is_none() { fail(format!("partial_cmp gave None for {} and {}", a, b)); }
            let ops = [(ta < tb, e == Ordering::Less, "<"), (ta > tb, e == Ordering::Greater, ">"), (ta <= tb, e != Ordering::Greater, "<="), (ta >= tb, e != Ordering::Less, ">="),
                       (ta < b, e == Ordering::Less, "ts < u32"), (ta > b, e == Ordering::Greater, "ts > u32"), (a < tb, e == Ordering::Less, "u32 < ts"), (a > tb, e == Ordering::Greater, "u32 > ts")];
            for (g, w, how) in ops.iter() { if g != w { fail(format!("{} {} {} is {}, expected {} ({} is {} ms ahead)", a, how, b, g, w, a, a.wrapping_sub(b))); } }
            // the order computed from results of + / - (not only from fresh values)
            let tw = (ta + 7u32) - 7u32;
            if tw.cmp(&tb) != e || (tw == tb) != (a == b) { fail(format!("({} + 7) - 7 compares to {} as {:?} / == {}, expected {:?} / {}", a, b, tw.cmp(&tb), tw == tb, e, a == b)); }
        });
        if r.is_err() { fail(format!("a timestamp operation panicked for the pair {} and {}", a, b)); }
    } }
    println!("NONE");
}
