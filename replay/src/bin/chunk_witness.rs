// Witness finder for the chunk-codec properties (C01, C06, C07, C08, C15, C19): runs the REAL crate on boundary inputs
// and compares with an independent reference encoder/decoder written from RTMP 1.0 section 5.3.1.
// It never decides a verdict; it only tries to turn a failed proof obligation into a concrete failing input.
// usage: chunk_witness <c01|c06|c07|c08|c15|c19> [seed]      exit 1 + "WITNESS ..." if a failing input is found, else exit 0 "NONE"
use bytes::Bytes;
use rml_rtmp::chunk_io::{ChunkDeserializer, ChunkSerializer, Packet};
use rml_rtmp::messages::MessagePayload;
use rml_rtmp::time::RtmpTimestamp;
use std::collections::HashMap;
use std::panic::{catch_unwind, AssertUnwindSafe};

#[derive(Clone, Debug, PartialEq)]
struct Msg { ts: u32, ty: u8, msid: u32, data: Vec<u8> }

// ---------------- reference encoder (one chunk) ----------------
fn ref_basic(fmt: u8, csid: u32, form: u8) -> Vec<u8> {
    match form {
        1 => vec![(fmt << 6) | csid as u8],
        2 => vec![fmt << 6, (csid - 64) as u8],
        _ => vec![(fmt << 6) | 1, ((csid - 64) % 256) as u8, ((csid - 64) / 256) as u8],
    }
}
fn be24(v: u32) -> [u8; 3] { [(v >> 16) as u8, (v >> 8) as u8, v as u8] }
fn ref_chunk(fmt: u8, csid: u32, form: u8, tsf: u32, len: u32, ty: u8, msid: u32, payload: &[u8]) -> Vec<u8> {
    let mut v = ref_basic(fmt, csid, form);
    let f24 = if tsf >= 0xFFFFFF { 0xFFFFFF } else { tsf };
    if fmt <= 2 { v.extend_from_slice(&be24(f24)); }
    if fmt <= 1 { v.extend_from_slice(&be24(len)); v.push(ty); }
    if fmt == 0 { v.extend_from_slice(&msid.to_le_bytes()); }
    if tsf >= 0xFFFFFF { v.extend_from_slice(&tsf.to_be_bytes()); }
    v.extend_from_slice(payload);
    v
}
// ---------------- reference decoder (per chunk stream reassembly, straight from 5.3.1) ----------------
#[derive(Clone, Default)]
struct RHdr { ts: u32, delta: u32, len: u32, ty: u8, msid: u32 }
struct RefDecoder { mcs: usize, prev: HashMap<u32, RHdr>, partial: HashMap<u32, Vec<u8>>, minimal_only: bool }
impl RefDecoder {
    fn new() -> Self { RefDecoder { mcs: 128, prev: HashMap::new(), partial: HashMap::new(), minimal_only: false } }
    // decode a complete byte string; Err(text) if malformed / truncated
    fn decode_all(&mut self, b: &[u8]) -> Result<Vec<Msg>, String> {
        let mut out = vec![];
        let mut i = 0usize;
        while i < b.len() {
            let fmt = b[i] >> 6;
            let low = (b[i] & 63) as u32;
            let (csid, n) = if low == 0 { if i + 2 > b.len() { return Err("trunc basic".into()); } (b[i + 1] as u32 + 64, 2) }
                else if low == 1 { if i + 3 > b.len() { return Err("trunc basic".into()); } (b[i + 2] as u32 * 256 + b[i + 1] as u32 + 64, 3) }
                else { (low, 1) };
            i += n;
            // C07 "chunk stream ids are legal and minimally encoded" (5.3.1.1: 2..63 one byte, 64..319 two bytes, 320..65599 three)
            if self.minimal_only && (csid < 2 || (n == 3 && csid < 320)) { return Err(format!("chunk stream id {} written in the {}-byte basic header form (not legal / not minimal)", csid, n)); }
            let first = self.partial.get(&csid).map(|p| p.is_empty()).unwrap_or(true);
            let mut h = if fmt == 0 { RHdr::default() } else { self.prev.get(&csid).cloned().ok_or_else(|| format!("no previous header on csid {}", csid))? };
            let need = match fmt { 0 => 11, 1 => 7, 2 => 3, _ => 0 };
            if i + need > b.len() { return Err("trunc header".into()); }
            let mut field = 0u32;
            if fmt <= 2 { field = (b[i] as u32) << 16 | (b[i + 1] as u32) << 8 | b[i + 2] as u32; i += 3; }
            if fmt <= 1 { h.len = (b[i] as u32) << 16 | (b[i + 1] as u32) << 8 | b[i + 2] as u32; h.ty = b[i + 3]; i += 4; }
            if fmt == 0 { h.msid = u32::from_le_bytes([b[i], b[i + 1], b[i + 2], b[i + 3]]); i += 4; }
            let has_ext = if fmt == 3 { h.delta >= 0xFFFFFF } else { field == 0xFFFFFF };
            let mut val = if fmt == 3 { h.delta } else { field };
            if has_ext { if i + 4 > b.len() { return Err("trunc ext".into()); } val = u32::from_be_bytes([b[i], b[i + 1], b[i + 2], b[i + 3]]); i += 4; }
            if fmt == 0 { h.ts = val; h.delta = val; }
            else if first { h.ts = h.ts.wrapping_add(val); h.delta = val; }
            let p = self.partial.entry(csid).or_default();
            let take = std::cmp::min(h.len as usize - p.len(), self.mcs);
            if i + take > b.len() { return Err("trunc payload".into()); }
            p.extend_from_slice(&b[i..i + take]); i += take;
            if p.len() == h.len as usize {
                let data = std::mem::take(p);
                let m = Msg { ts: h.ts, ty: h.ty, msid: h.msid, data };
                if m.ty == 1 && m.data.len() >= 4 {
                    let sz = u32::from_be_bytes([m.data[0], m.data[1], m.data[2], m.data[3]]);
                    if sz >= 1 && sz <= 0x7FFF_FFFF { self.mcs = sz as usize; }
                }
                out.push(m);
            }
            self.prev.insert(csid, h);
        }
        Ok(out)
    }
}
// ---------------- the real deserializer, driven by the documented calling convention ----------------
fn real_decode(d: &mut ChunkDeserializer, pieces: &[&[u8]]) -> Result<Vec<Msg>, String> {
    let mut out = vec![];
    for p in pieces {
        let mut first = true;
        loop {
            let input: &[u8] = if first { p } else { &[] };
            first = false;
            let r = catch_unwind(AssertUnwindSafe(|| d.get_next_message(input)));
            match r {
                Err(_) => return Err(format!("PANIC after {} messages", out.len())),
                Ok(Err(e)) => return Err(format!("error after {} messages: {}", out.len(), e)),
                Ok(Ok(None)) => break,
                Ok(Ok(Some(m))) => {
                    let mm = Msg { ts: m.timestamp.value, ty: m.type_id, msid: m.message_stream_id, data: m.data.to_vec() };
                    if mm.ty == 1 && mm.data.len() >= 4 {
                        let sz = u32::from_be_bytes([mm.data[0], mm.data[1], mm.data[2], mm.data[3]]);
                        if sz >= 1 && sz <= 0x7FFF_FFFF {
                            // "a deserializer that honours each DECODED chunk-size change": the size is taken from the library's own
                            // decoding of the message body, as the sessions do
                            match catch_unwind(AssertUnwindSafe(|| m.to_rtmp_message())) {
                                Ok(Ok(rml_rtmp::messages::RtmpMessage::SetChunkSize { size })) => { if let Err(e) = d.set_max_chunk_size(size as usize) { return Err(format!("set_max_chunk_size({}): {}", size, e)); } }
                                Ok(Ok(other)) => return Err(format!("SetChunkSize body {:?} (size {}) decoded as {:?}", mm.data, sz, other)),
                                Ok(Err(e)) => return Err(format!("the receiver cannot decode the in-band chunk-size change to {} (body {:?}): {}", sz, mm.data, e)),
                                Err(_) => return Err(format!("PANIC decoding the in-band chunk-size change to {}", sz)),
                            }
                        }
                    }
                    out.push(mm);
                }
            }
        }
    }
    Ok(out)
}
struct Rng(u64);
impl Rng { fn next(&mut self) -> u64 { self.0 = self.0.wrapping_mul(6364136223846793005).wrapping_add(1442695040888963407); self.0 >> 33 } fn pick<T: Copy>(&mut self, v: &[T]) -> T { v[(self.next() % v.len() as u64) as usize] } }

const TS: [u32; 9] = [0, 1, 5000, 0xFFFFFE, 0xFFFFFF, 0x1000000, 0x7FFFFFFF, 0x80000000, 0xFFFFFFFF];
const LENS: [usize; 10] = [0, 1, 2, 127, 128, 129, 255, 256, 257, 400];
const TYS: [u8; 8] = [8, 9, 18, 20, 4, 3, 0, 200];
fn payload(n: usize, salt: u8) -> Vec<u8> { (0..n).map(|i| (i as u8).wrapping_mul(7).wrapping_add(salt)).collect() }
fn witness(s: String) -> ! { println!("WITNESS {}", s); std::process::exit(1) }

#[derive(Clone, Debug)]
enum Op { Send { m: Msg, force: bool, dropp: bool }, Size(u32) }
fn gen_script(rng: &mut Rng, n: usize, allow_size: bool) -> Vec<Op> {
    let mut v = vec![];
    let mut base = rng.pick(&TS);
    for k in 0..n {
        if allow_size && rng.next() % 5 == 0 { v.push(Op::Size(rng.pick(&[1u32, 2, 64, 127, 128, 129, 4096, 0x7FFFFFFF]))); continue; }
        let ts = match rng.next() % 4 { 0 => rng.pick(&TS), 1 => base, 2 => base.wrapping_add(rng.pick(&[1u32, 40, 0xFFFFFE, 0xFFFFFF, 0x1000000])), _ => base.wrapping_sub(rng.pick(&[1u32, 1000])) };
        base = ts;
        let ty = rng.pick(&TYS);
        let m = Msg { ts, ty, msid: rng.pick(&[0u32, 1, 1, 1, 7, 0xFFFFFFFF]), data: payload(rng.pick(&LENS), k as u8) };
        v.push(Op::Send { m, force: rng.next() % 6 == 0, dropp: rng.next() % 3 == 0 });
    }
    v
}
fn run_sender(script: &[Op]) -> Result<Vec<(Packet, Option<Msg>)>, String> {
    let mut s = ChunkSerializer::new();
    let mut out = vec![];
    for op in script {
        match op {
            Op::Size(n) => {
                let r = catch_unwind(AssertUnwindSafe(|| s.set_max_chunk_size(*n, RtmpTimestamp::new(0))));
                match r { Err(_) => return Err(format!("PANIC in set_max_chunk_size({})", n)), Ok(Err(e)) => return Err(format!("set_max_chunk_size({}) refused: {}", n, e)),
                          Ok(Ok(p)) => out.push((p, Some(Msg { ts: 0, ty: 1, msid: 0, data: n.to_be_bytes().to_vec() }))) }
            }
            Op::Send { m, force, dropp } => {
                let mp = MessagePayload { timestamp: RtmpTimestamp::new(m.ts), type_id: m.ty, message_stream_id: m.msid, data: Bytes::from(m.data.clone()) };
                let r = catch_unwind(AssertUnwindSafe(|| s.serialize(&mp, *force, *dropp)));
                match r { Err(_) => return Err(format!("PANIC in serialize({:?})", (m.ts, m.ty, m.msid, m.data.len()))), Ok(Err(e)) => return Err(format!("serialize refused: {}", e)),
                          Ok(Ok(p)) => { if p.can_be_dropped != *dropp { return Err("can_be_dropped flag not propagated".into()); } out.push((p, Some(m.clone()))) } }
            }
        }
    }
    Ok(out)
}
fn short(script: &[Op]) -> String {
    script.iter().map(|o| match o { Op::Size(n) => format!("size({})", n), Op::Send { m, force, dropp } => format!("send(ts={},ty={},msid={},len={},force={},drop={})", m.ts, m.ty, m.msid, m.data.len(), force, dropp) }).collect::<Vec<_>>().join(" ")
}
fn scripts(seed: u64, count: usize, no_type1: bool) -> Vec<Vec<Op>> {
    let mut rng = Rng(seed ^ 0x9E3779B97F4A7C15);
    let mut v = vec![];
    // deterministic grid first: pairs of messages around the timestamp / length boundaries
    for &t1 in &TS { for &t2 in &[t1, t1.wrapping_add(1), t1.wrapping_add(0xFFFFFF), t1.wrapping_add(0x1000000)] { for &l in &[0usize, 1, 128, 129, 257] {
        v.push(vec![Op::Send { m: Msg { ts: t1, ty: 9, msid: 1, data: payload(l, 1) }, force: false, dropp: false },
                    Op::Send { m: Msg { ts: t2, ty: 9, msid: 1, data: payload(l, 2) }, force: false, dropp: false },
                    Op::Send { m: Msg { ts: t2.wrapping_add(t2.wrapping_sub(t1)), ty: 9, msid: 1, data: payload(l, 3) }, force: false, dropp: false }]);
    } } }
    // constant-cadence, constant-size runs on one chunk stream (these are the histories in which format 3 starts new
    // messages), with every pattern of droppable flags and a forced-uncompressed message at every position
    for &t0 in &[0u32, 1000, 0xFFFFFF - 46, 0xFFFFFFF0] { for &step in &[0u32, 23, 0xFFFFFF] { for &l in &[0usize, 16, 128, 300] {
        for mask in 0..32u32 {
            let mut sc = vec![];
            for k in 0..5u32 { sc.push(Op::Send { m: Msg { ts: t0.wrapping_add(step.wrapping_mul(k)), ty: 8, msid: 1, data: payload(l, k as u8) }, force: false, dropp: (mask >> k) & 1 == 1 }); }
            sc.push(Op::Send { m: Msg { ts: t0.wrapping_add(step.wrapping_mul(5)).wrapping_add(7), ty: 8, msid: 1, data: payload(l, 9) }, force: false, dropp: false });
            v.push(sc);
        }
        for fpos in 0..4usize {
            let mut sc = vec![];
            for k in 0..5u32 { sc.push(Op::Send { m: Msg { ts: t0.wrapping_add(step.wrapping_mul(k)).wrapping_add(if k as usize > fpos { 5 } else { 0 }), ty: 9, msid: if k as usize == fpos { 2 } else { 1 }, data: payload(l + (k as usize == fpos) as usize, k as u8) }, force: k as usize == fpos, dropp: false }); }
            v.push(sc);
        }
    } } }
    // interleaved chunk streams: droppable video, non-droppable audio, video again
    for mask in 0..8u32 {
        let mut sc = vec![];
        for k in 0..6u32 { let video = k % 2 == 0; sc.push(Op::Send { m: Msg { ts: 40 * k, ty: if video { 9 } else { 8 }, msid: 1, data: payload(if video { 200 } else { 16 }, k as u8) }, force: false, dropp: video && (mask >> (k / 2)) & 1 == 1 }); }
        v.push(sc);
    }
    // constant-size, constant-rate MULTI-CHUNK messages on one chunk stream (format 3 then starts a message that is split), interleaved
    // with messages on another chunk stream whose timestamp field lies on the other side of the 0xFFFFFF threshold: whether a
    // continuation chunk carries an extended timestamp must depend on ITS chunk stream only
    for &step in &[23u32, 0xFFFFFF, 0x1000000] { for &vts in &[5u32, 0xFFFFFE, 0xFFFFFF, 0x1000000, 0x7FFFFFFF] { for &vl in &[16usize, 200] { for &vforce in &[false, true] {
        let mut sc = vec![];
        for k in 0..5u32 {
            sc.push(Op::Send { m: Msg { ts: 1000u32.wrapping_add(step.wrapping_mul(k)), ty: 8, msid: 1, data: payload(300, k as u8) }, force: false, dropp: false });
            sc.push(Op::Send { m: Msg { ts: vts.wrapping_add(k * if vforce { 0 } else { 40 }), ty: if k % 2 == 0 { 9 } else { 18 }, msid: 1, data: payload(vl, 100 + k as u8) }, force: vforce, dropp: false });
        }
        v.push(sc);
    } } } }
    // MANY message streams on one connection (every one sends audio and video, then the first ones speak again): the chunk stream a
    // message goes out on must stay decodable whatever number of message streams the serializer has seen
    for &n in &[3u32, 29, 30, 31, 70, 130] { for &base in &[1u32, 100, 1000, 21800, 0x7FFFFFF0, 0xFFFFFF00] {
        let mut sc = vec![];
        for k in 0..n { for ty in [8u8, 9] { sc.push(Op::Send { m: Msg { ts: 10 * k, ty, msid: base.wrapping_add(k), data: payload(if ty == 9 { 140 } else { 9 }, k as u8) }, force: false, dropp: false }); } }
        // second round: EVERY stream speaks again (compressed headers against whatever the receiver filed under that chunk stream id)
        for k in 0..n { sc.push(Op::Send { m: Msg { ts: 10 * n + k, ty: 9, msid: base.wrapping_add(k), data: payload(141, 200u8.wrapping_add(k as u8)) }, force: false, dropp: false }); }
        v.push(sc);
    } }
    for _ in 0..count { let n = 2 + (rng.next() % 6) as usize; v.push(gen_script(&mut rng, n, true)); }
    let _ = no_type1;
    v
}

fn mode_c07_c01_c15(mode: &str, seed: u64) {
    for sc in scripts(seed, 400, true) {
        let pk = match run_sender(&sc) { Ok(p) => p, Err(e) => witness(format!("[{}] script {} : {}", mode, short(&sc), e)) };
        let expect: Vec<Msg> = pk.iter().map(|(_, m)| m.clone().unwrap()).collect();
        for (p, _) in &pk { if p.bytes.is_empty() { witness(format!("[{}] empty packet in script {}", mode, short(&sc))); } }
        let all: Vec<u8> = pk.iter().flat_map(|(p, _)| p.bytes.clone()).collect();
        if mode == "c07" {
            let mut r = RefDecoder::new(); r.minimal_only = true;
            match r.decode_all(&all) { Ok(got) => if got != expect { witness(format!("[c07] reference decoder disagrees on script {}: got {:?}", short(&sc), got.iter().map(|m| (m.ts, m.ty, m.msid, m.data.len())).collect::<Vec<_>>())) },
                                        Err(e) => witness(format!("[c07] reference decoder rejects the output of script {}: {}", short(&sc), e)) }
            // per-chunk payload bound is implied by exact decoding with the announced sizes
        } else {
            let mut d = ChunkDeserializer::new();
            let whole = real_decode(&mut d, &[&all]);
            if whole.as_ref().ok() != Some(&expect) { witness(format!("[{}] one-piece delivery of script {} gives {:?}", mode, short(&sc), whole.map(|v| v.iter().map(|m| (m.ts, m.ty, m.msid, m.data.len())).collect::<Vec<_>>()))); }
            // byte by byte, and every 2-split for short streams
            let pieces: Vec<&[u8]> = all.chunks(1).collect();
            let mut d = ChunkDeserializer::new();
            let bb = real_decode(&mut d, &pieces);
            if bb.as_ref().ok() != Some(&expect) { witness(format!("[{}] byte-by-byte delivery of script {} differs: {:?}", mode, short(&sc), bb.map(|v| v.len()))); }
            let step = std::cmp::max(1, all.len() / 60);
            let mut k = 0; while k <= all.len() { let mut d = ChunkDeserializer::new();
                let r = real_decode(&mut d, &[&all[..k], &all[k..]]);
                if r.as_ref().ok() != Some(&expect) { witness(format!("[{}] split at {} of script {} differs: {:?}", mode, k, short(&sc), r.map(|v| v.len()))); }
                k += step; }
        }
    }
}
fn mode_c08(seed: u64) {
    for sc in scripts(seed, 300, true) {
        let pk = match run_sender(&sc) { Ok(p) => p, Err(e) => witness(format!("[c08] script {} : {}", short(&sc), e)) };
        let droppable: Vec<usize> = pk.iter().enumerate().filter(|(_, (p, _))| p.can_be_dropped).map(|(i, _)| i).collect();
        let k = std::cmp::min(droppable.len(), 5);
        for mask in 0..(1u32 << k) {
            let mut bytes = vec![]; let mut expect = vec![];
            for (i, (p, m)) in pk.iter().enumerate() {
                let pos = droppable.iter().position(|&x| x == i);
                if let Some(j) = pos { if j < k && (mask >> j) & 1 == 1 { continue; } }
                bytes.extend_from_slice(&p.bytes); expect.push(m.clone().unwrap());
            }
            let mut d = ChunkDeserializer::new();
            let r = real_decode(&mut d, &[&bytes]);
            if r.as_ref().ok() != Some(&expect) { witness(format!("[c08] script {} with drop mask {:b} over droppable packets {:?}: real deserializer gives {:?}", short(&sc), mask, &droppable[..k], r.map(|v| v.iter().map(|m| (m.ts, m.ty, m.msid, m.data.len())).collect::<Vec<_>>()))); }
            let mut rd = RefDecoder::new();
            let r2 = rd.decode_all(&bytes);
            if r2.as_ref().ok() != Some(&expect) { witness(format!("[c08] script {} with drop mask {:b}: reference decoder gives {:?}", short(&sc), mask, r2.map(|v| v.len()))); }
        }
    }
}
// conformant foreign streams: every legal format choice, all csid forms, through the real deserializer
fn mode_c06(seed: u64) {
    // EXHAUSTIVE over chunk stream ids: one conformant stream that opens EVERY chunk stream id 2..=65599 with a full header
    // (message stream id = the chunk stream id) and then sends a compressed (fmt 1) chunk on every one of them, in the
    // minimal basic-header form and, for 64..=319, also in the 3-byte form.  A basic-header parse that maps two ids to the
    // same slot (or an id to another legal id) makes some compressed chunk inherit a foreign message stream id.
    {
        let mut bytes = vec![]; let mut expect = vec![];
        let form_of = |c: u32| if c <= 63 { 1u8 } else if c <= 319 { 2 } else { 3 };
        for c in 2u32..=65599 { bytes.extend(ref_chunk(0, c, form_of(c), 10, 1, 8, c, &[c as u8])); expect.push(Msg { ts: 10, ty: 8, msid: c, data: vec![c as u8] }); }
        for c in 2u32..=65599 { bytes.extend(ref_chunk(1, c, form_of(c), 5, 2, 9, c, &[1, c as u8])); expect.push(Msg { ts: 15, ty: 9, msid: c, data: vec![1, c as u8] }); }
        for c in 64u32..=319 { bytes.extend(ref_chunk(2, c, 3, 7, 2, 9, c, &[2, c as u8])); expect.push(Msg { ts: 22, ty: 9, msid: c, data: vec![2, c as u8] }); }
        let mut d = ChunkDeserializer::new();
        match real_decode(&mut d, &[&bytes[..]]) {
            Ok(got) => { if got != expect {
                let k = got.iter().zip(expect.iter()).position(|(a, b)| a != b).unwrap_or(std::cmp::min(got.len(), expect.len()));
                let e = expect.get(k).map(|m| (m.ts, m.ty, m.msid, m.data.clone())); let g = got.get(k).map(|m| (m.ts, m.ty, m.msid, m.data.clone()));
                witness(format!("[c06] conformant stream: full-header 1-byte message (type 8, ts 10, message stream id = csid) on every chunk stream id 2..=65599, then a fmt-1 chunk (delta 5, 2 bytes, type 9) on every id, then fmt-2 chunks in the 3-byte form on 64..=319: message #{} (chunk stream id {}) decoded as (ts, type, msid, data) {:?}, expected {:?}; {} messages decoded, {} expected",
                    k, if k < 65598 { k as u32 + 2 } else if k < 2 * 65598 { (k - 65598) as u32 + 2 } else { (k - 2 * 65598) as u32 + 64 }, g, e, got.len(), expect.len())); } }
            Err(e) => witness(format!("[c06] conformant stream over every chunk stream id 2..=65599 (full header, then fmt 1, then fmt 2 in the 3-byte form on 64..=319): real deserializer failed: {}", e)),
        }
    }
    let mut rng = Rng(seed ^ 0xC06);
    for round in 0..600 {
        let mut mcs = 128usize;
        let mut prev: HashMap<u32, (RHdr, u32)> = HashMap::new();   // csid -> (header, last tsf)
        let mut bytes = vec![]; let mut expect = vec![]; let mut desc = vec![];
        let n = 2 + rng.next() % 5;
        for k in 0..n {
            let csid = rng.pick(&[2u32, 3, 63, 64, 65, 319, 320, 65599]);
            let form = if csid <= 63 { 1 } else if csid <= 319 { rng.pick(&[2u8, 3]) } else { 3 };
            let (ts, ty, msid, len);
            let p = prev.get(&csid).cloned();
            let mut fmt = 0u8;
            let compress_ok = p.as_ref().map(|x| x.0.ty != 1).unwrap_or(false);   // never inherit a chunk-size message's type
            if let (Some((ph, ptsf)), true) = (p.clone(), compress_ok && rng.next() % 3 != 0) {
                fmt = rng.pick(&[1u8, 2, 3]);
                let delta = if fmt == 3 { ptsf } else { rng.pick(&[0u32, 1, 33, 0xFFFFFE, 0xFFFFFF, 0x1000000, 0x7FFFFFFF]) };
                ts = ph.ts.wrapping_add(delta); msid = ph.msid;
                if fmt >= 2 { ty = ph.ty; len = ph.len as usize; } else { ty = rng.pick(&TYS[..6]); len = rng.pick(&LENS); }
            } else { ts = rng.pick(&TS); ty = rng.pick(&TYS[..6]); msid = rng.pick(&[0u32, 1, 9]); len = rng.pick(&LENS); }
            let is_scs = round % 7 == 0 && k == 1;
            let (ty, data, fmt) = if is_scs { (1u8, (rng.pick(&[1u32, 50, 128, 1000])).to_be_bytes().to_vec(), 0u8) } else { (ty, payload(len, k as u8), fmt) };
            let len = data.len();
            let tsf = if fmt == 0 { ts } else { ts.wrapping_sub(p.as_ref().map(|x| x.0.ts).unwrap_or(0)) };
            let nch = if len == 0 { 1 } else { (len + mcs - 1) / mcs };
            for c in 0..nch {
                let f = if c == 0 { fmt } else { 3 };
                let sl = &data[c * mcs..std::cmp::min((c + 1) * mcs, len)];
                bytes.extend(ref_chunk(f, csid, form, tsf, len as u32, ty, msid, sl));
            }
            desc.push(format!("msg(csid={},form={},fmt={},ts={},tsf={},ty={},msid={},len={})", csid, form, fmt, ts, tsf, ty, msid, len));
            prev.insert(csid, (RHdr { ts, delta: tsf, len: len as u32, ty, msid }, tsf));
            expect.push(Msg { ts, ty, msid, data: data.clone() });
            if is_scs { mcs = u32::from_be_bytes([data[0], data[1], data[2], data[3]]) as usize; }
        }
        for pieces in [vec![&bytes[..]], bytes.chunks(1).collect::<Vec<_>>(), bytes.chunks(7).collect::<Vec<_>>()] {
            let mut d = ChunkDeserializer::new();
            let r = real_decode(&mut d, &pieces);
            if r.as_ref().ok() != Some(&expect) { witness(format!("[c06] conformant stream {} ({} pieces): real deserializer gives {:?}", desc.join(" "), pieces.len(), r.map(|v| v.iter().map(|m| (m.ts, m.ty, m.msid, m.data.len())).collect::<Vec<_>>()))); }
        }
    }
}
// C16 outside the known finding K-C16: messages on DIFFERENT chunk streams alternating at message boundaries (no chunk of another
// stream inside a partially received message), each stream with its own type / message stream id / length / timestamp chain and
// compressed headers - every message must come out with exactly its own header fields and payload.
fn mode_c16(seed: u64) {
    let ids = [2u32, 3, 63, 64, 65, 255, 256, 319, 320, 321, 575, 576, 65598, 65599];
    for (ia, &a) in ids.iter().enumerate() { for &b in &ids[ia + 1..] { for &(la, lb) in &[(0usize, 1usize), (1, 128), (128, 129), (129, 300), (300, 0), (257, 257)] {
        let fa = if a <= 63 { 1u8 } else if a <= 319 { 2 } else { 3 }; let fb = if b <= 63 { 1u8 } else if b <= 319 { 3 } else { 3 };
        let mut bytes = vec![]; let mut expect = vec![];
        let mut emit = |fmt: u8, csid: u32, form: u8, tsf: u32, ts: u32, len: usize, ty: u8, msid: u32, salt: u8, bytes: &mut Vec<u8>, expect: &mut Vec<Msg>| {
            let data = payload(len, salt);
            let n = if len == 0 { 1 } else { (len + 127) / 128 };
            for c in 0..n { let f = if c == 0 { fmt } else { 3 }; bytes.extend(ref_chunk(f, csid, form, tsf, len as u32, ty, msid, &data[c * 128..std::cmp::min((c + 1) * 128, len)])); }
            expect.push(Msg { ts, ty, msid, data });
        };
        // A: type 9 on message stream 5, starts at 1000, delta 40;  B: type 8 on message stream 0x01020304, starts at 0xFFFFF0, delta 0x20 (crosses 0xFFFFFF)
        emit(0, a, fa, 1000, 1000, la, 9, 5, 1, &mut bytes, &mut expect);
        emit(0, b, fb, 0xFFFFF0, 0xFFFFF0, lb, 8, 0x01020304, 2, &mut bytes, &mut expect);
        emit(1, a, fa, 40, 1040, la + 1, 18, 5, 3, &mut bytes, &mut expect);
        emit(2, b, fb, 0x20, 0x1000010, lb, 8, 0x01020304, 4, &mut bytes, &mut expect);
        emit(3, a, fa, 40, 1080, la + 1, 18, 5, 5, &mut bytes, &mut expect);
        emit(3, b, fb, 0x20, 0x1000030, lb, 8, 0x01020304, 6, &mut bytes, &mut expect);
        emit(2, a, fa, 7, 1087, la + 1, 18, 5, 7, &mut bytes, &mut expect);
        for pieces in [vec![&bytes[..]], bytes.chunks(1).collect::<Vec<_>>(), bytes.chunks(11).collect::<Vec<_>>()] {
            let mut d = ChunkDeserializer::new();
            let r = real_decode(&mut d, &pieces);
            if r.as_ref().ok() != Some(&expect) {
                witness(format!("[c16] messages alternating at message boundaries on chunk streams {} ({}-byte form) and {} ({}-byte form), lengths {}/{} then {}/{}; A: full header ts 1000 type 9 msid 5, fmt 1 (delta 40, type 18, len+1), fmt 3, fmt 2 (delta 7); B: full header ts 0xFFFFF0 type 8 msid 0x01020304, fmt 2 (delta 0x20), fmt 3; {} pieces: real deserializer gives {:?}, expected {:?}",
                    a, fa, b, fb, la, lb, la + 1, lb, pieces.len(), r.map(|v| v.iter().map(|m| (m.ts, m.ty, m.msid, m.data.len())).collect::<Vec<_>>()), expect.iter().map(|m| (m.ts, m.ty, m.msid, m.data.len())).collect::<Vec<_>>()));
            }
        }
    } } }
    mode_c06(seed ^ 0xC16);
}
// C03: ARBITRARY (mostly non-conformant) chunk sequences - interleaved partial messages, headers that inherit lengths shorter than
// what is already buffered, random formats / lengths / extended timestamps, raw noise - must give Ok or Err, never a panic
// (overflow checks are on in this build profile) and never a call that does not return.
fn mode_c03(seed: u64) {
    let mut rng = Rng(seed ^ 0xC03);
    let lens = [0usize, 1, 5, 100, 127, 128, 129, 200, 256, 300, 0xFFFFFF];
    for round in 0..6000u32 {
        let mut bytes = vec![]; let mut desc = vec![];
        let n = 1 + rng.next() % 7;
        for _ in 0..n {
            if rng.next() % 9 == 0 { let k = (rng.next() % 20) as usize; let noise: Vec<u8> = (0..k).map(|_| rng.next() as u8).collect(); desc.push(format!("noise{:02x?}", noise)); bytes.extend(noise); continue; }
            let fmt = (rng.next() % 4) as u8;
            let csid = rng.pick(&[3u32, 4, 4, 64, 320]);
            let form = if csid <= 63 { 1 } else if csid <= 319 { rng.pick(&[2u8, 3]) } else { 3 };
            let len = rng.pick(&lens);
            let carried = std::cmp::min(rng.pick(&[0usize, 1, 50, 128, 128, 128, 130]), std::cmp::min(len, 4096));
            let tsf = rng.pick(&[0u32, 1, 0xFFFFFE, 0xFFFFFF, 0x1000000, 0xFFFFFFFF]);
            let ty = rng.pick(&[8u8, 9, 1, 20, 3]);
            let data = if ty == 1 { let v = rng.pick(&[0u32, 1, 128, 0x7FFFFFFF, 0x80000000, 0xFFFFFFFF]).to_be_bytes().to_vec(); v[..std::cmp::min(carried, 4)].to_vec() } else { payload(carried, round as u8) };
            bytes.extend(ref_chunk(fmt, csid, form, tsf, len as u32, ty, rng.pick(&[0u32, 1, 0xFFFFFFFF]), &data));
            desc.push(format!("chunk(fmt={},csid={},form={},tsf={},len={},ty={},carried={})", fmt, csid, form, tsf, len, ty, data.len()));
        }
        for pieces in [vec![&bytes[..]], bytes.chunks(1).collect::<Vec<_>>(), bytes.chunks(13).collect::<Vec<_>>()] {
            let (tx, rx) = std::sync::mpsc::channel();
            let owned: Vec<Vec<u8>> = pieces.iter().map(|p| p.to_vec()).collect();
            std::thread::spawn(move || { let mut d = ChunkDeserializer::new(); let refs: Vec<&[u8]> = owned.iter().map(|v| &v[..]).collect(); let r = real_decode(&mut d, &refs); let _ = tx.send(r.map(|v| v.len())); });
            match rx.recv_timeout(std::time::Duration::from_secs(60)) {
                Err(_) => witness(format!("[c03] arbitrary chunk sequence {} ({} pieces): the deserializer did not return within 60 s", desc.join(" "), pieces.len())),
                Ok(Err(e)) if e.contains("PANIC") => witness(format!("[c03] arbitrary chunk sequence {} ({} pieces): {}", desc.join(" "), pieces.len(), e)),
                Ok(_) => {}
            }
        }
    }
}
fn mode_c19() {
    for &n in &[0u32, 0x80000000, 0xFFFFFFFF] {
        let mut s = ChunkSerializer::new();
        if s.set_max_chunk_size(n, RtmpTimestamp::new(0)).is_ok() { witness(format!("[c19] ChunkSerializer::set_max_chunk_size({}) accepted", n)); }
        let mut d = ChunkDeserializer::new();
        if d.set_max_chunk_size(n as usize).is_ok() { witness(format!("[c19] ChunkDeserializer::set_max_chunk_size({}) accepted", n)); }
    }
    for &n in &[1u32, 2, 128, 0x7FFFFFFF] {
        let mut s = ChunkSerializer::new();
        if s.set_max_chunk_size(n, RtmpTimestamp::new(0)).is_err() { witness(format!("[c19] ChunkSerializer::set_max_chunk_size({}) refused", n)); }
        let mut d = ChunkDeserializer::new();
        if d.set_max_chunk_size(n as usize).is_err() { witness(format!("[c19] ChunkDeserializer::set_max_chunk_size({}) refused", n)); }
        let mp = MessagePayload { timestamp: RtmpTimestamp::new(1), type_id: 9, message_stream_id: 1, data: Bytes::from(payload(300, 1)) };
        match s.serialize(&mp, false, false) { Ok(p) => { let maxlen = 300 + 18 * ((300 + n as usize - 1) / n as usize); if p.bytes.len() > maxlen { witness(format!("[c19] packet of {} bytes for a 300 byte payload at chunk size {}", p.bytes.len(), n)); } }, Err(e) => witness(format!("[c19] serialize refused at chunk size {}: {}", n, e)) }
    }
    // the payload limit holds under EVERY accepted chunk size, also sizes above the limit itself
    for &cs in &[16777215u32, 16777216, 0x7FFFFFFF] {
        let mut s = ChunkSerializer::new();
        if s.set_max_chunk_size(cs, RtmpTimestamp::new(0)).is_err() { witness(format!("[c19] chunk size {} refused", cs)); }
        let big = MessagePayload { timestamp: RtmpTimestamp::new(1), type_id: 9, message_stream_id: 1, data: Bytes::from(vec![0u8; 16777216]) };
        match catch_unwind(AssertUnwindSafe(|| s.serialize(&big, false, false))) {
            Err(_) => witness(format!("[c19] serialize() PANICKED instead of refusing a 16,777,216 byte payload at chunk size {}", cs)),
            Ok(Ok(_)) => witness(format!("[c19] 16,777,216 byte payload accepted at chunk size {}", cs)),
            Ok(Err(_)) => {}
        }
    }
    let mut s = ChunkSerializer::new();
    let big = MessagePayload { timestamp: RtmpTimestamp::new(1), type_id: 9, message_stream_id: 1, data: Bytes::from(vec![0u8; 16777216]) };
    if s.serialize(&big, false, false).is_ok() { witness("[c19] 16,777,216 byte payload accepted".into()); }
    let ok = MessagePayload { timestamp: RtmpTimestamp::new(1), type_id: 9, message_stream_id: 1, data: Bytes::from(vec![0u8; 16777215]) };
    if s.serialize(&ok, false, false).is_err() { witness("[c19] 16,777,215 byte payload refused".into()); }
}
fn main() {
    let a: Vec<String> = std::env::args().collect();
    let mode = a.get(1).map(|s| s.as_str()).unwrap_or("c01");
    let seed: u64 = a.get(2).and_then(|s| s.parse().ok()).unwrap_or(0);
    std::panic::set_hook(Box::new(|_| {}));
    match mode {
        "c07" => mode_c07_c01_c15("c07", seed),
        "c01" => { mode_c07_c01_c15("c01", seed); }
        "c15" => { mode_c07_c01_c15("c15", seed); mode_c06(seed); }
        "c08" => mode_c08(seed),
        "c06" => mode_c06(seed),
        "c16" => mode_c16(seed),
        "c03" => mode_c03(seed),
        "c19" => mode_c19(),
        _ => {}
    }
    println!("NONE");
}
