// K-C18-accept: accept_request(publish) returns Err AFTER serializing StreamBegin; the packet is dropped, the
// stream is Publishing anyway, and the next compressed header on that chunk stream refers to the dropped packet.
extern crate bytes; extern crate rml_amf0; extern crate rml_rtmp;
use rml_amf0::Amf0Value;
use rml_rtmp::chunk_io::{ChunkDeserializer, ChunkSerializer};
use rml_rtmp::messages::{MessagePayload, RtmpMessage};
use rml_rtmp::sessions::{ServerSession, ServerSessionConfig, ServerSessionEvent, ServerSessionResult};
use rml_rtmp::time::RtmpTimestamp;
use std::collections::HashMap;

fn cmd(ser: &mut ChunkSerializer, name: &str, tx: f64, obj: Amf0Value, args: Vec<Amf0Value>, msid: u32) -> Vec<u8> {
    let m = RtmpMessage::Amf0Command { command_name: name.to_string(), transaction_id: tx, command_object: obj, additional_arguments: args };
    let p = m.into_message_payload(RtmpTimestamp::new(0), msid).unwrap();
    ser.serialize(&p, false, false).unwrap().bytes
}
// what a conformant peer sees: feed it every packet the session RETURNED, in order
fn peer_feed(peer: &mut ChunkDeserializer, results: &[ServerSessionResult], seen: &mut Vec<MessagePayload>) {
    for r in results {
        if let ServerSessionResult::OutboundResponse(p) = r {
            let mut b: &[u8] = &p.bytes;
            loop { match peer.get_next_message(b).expect("peer decode error") { Some(m) => { seen.push(m); b = &[]; } None => break } }
        }
    }
}
fn request_id(results: &[ServerSessionResult]) -> u32 {
    for r in results { if let ServerSessionResult::RaisedEvent(e) = r { match e {
        ServerSessionEvent::ConnectionRequested { request_id, .. } => return *request_id,
        ServerSessionEvent::PublishStreamRequested { request_id, .. } => return *request_id,
        _ => {} } } }
    panic!("no request event");
}
fn main() {
    let mut cfg = ServerSessionConfig::new(); cfg.chunk_size = 4096;
    let (mut s, init) = ServerSession::new(cfg).unwrap();
    let mut peer = ChunkDeserializer::new(); let mut seen = Vec::new();
    peer_feed(&mut peer, &init, &mut seen);
    // the server announced chunk size 4096: a conformant peer applies it
    peer.set_max_chunk_size(4096).unwrap();
    let mut cli = ChunkSerializer::new();
    let mut obj = HashMap::new(); obj.insert("app".to_string(), Amf0Value::Utf8String("live".to_string()));
    let r = s.handle_input(&cmd(&mut cli, "connect", 1.0, Amf0Value::Object(obj), vec![], 0)).unwrap();
    let r = s.accept_request(request_id(&r)).unwrap(); peer_feed(&mut peer, &r, &mut seen);
    let r = s.handle_input(&cmd(&mut cli, "createStream", 2.0, Amf0Value::Null, vec![], 0)).unwrap(); peer_feed(&mut peer, &r, &mut seen);
    // publish with a LEGAL 65,500-byte stream key (AMF0 strings go up to 65,535 bytes)
    let key = "k".repeat(65_500);
    let r = s.handle_input(&cmd(&mut cli, "publish", 3.0, Amf0Value::Null, vec![Amf0Value::Utf8String(key), Amf0Value::Utf8String("live".to_string())], 1)).unwrap();
    let id = request_id(&r);
    let e = s.accept_request(id);
    println!("accept_request(long key) -> {:?}", e.as_ref().map(|v| v.len()).map_err(|e| format!("{}", e)));
    assert!(e.is_err(), "expected Err");
    // 1) the request is consumed and the stream IS publishing although the caller was told Err:
    println!("accept_request(same id) again -> {:?}", s.accept_request(id).map(|v| v.len()).map_err(|e| format!("{}", e)));
    let audio = RtmpMessage::AudioData { data: bytes::Bytes::from(vec![1u8, 2, 3]) }.into_message_payload(RtmpTimestamp::new(5), 1).unwrap();
    let r = s.handle_input(&cli.serialize(&audio, false, false).unwrap().bytes).unwrap();
    println!("audio on stream 1 after the failed accept raises {} event(s)", r.len());
    // 2) the dropped StreamBegin(1) advanced the serializer's header table for chunk stream 2: publish again with a
    //    short key; the StreamBegin(1) returned now is header-compressed against the DROPPED packet.
    let r = s.handle_input(&cmd(&mut cli, "publish", 4.0, Amf0Value::Null, vec![Amf0Value::Utf8String("short".to_string()), Amf0Value::Utf8String("live".to_string())], 1)).unwrap();
    let r = s.accept_request(request_id(&r)).unwrap();
    let before = seen.len();
    peer_feed(&mut peer, &r, &mut seen);
    for m in &seen[before..] {
        println!("peer decoded type {} on message stream {} ({:?})", m.type_id, m.message_stream_id, m.to_rtmp_message().map(|x| format!("{:?}", x).chars().take(70).collect::<String>()));
    }
    let sb = &seen[before];
    if sb.type_id != 4 || sb.message_stream_id != 1 {
        println!("DEFECT REPRODUCED: the session serialized UserControl StreamBegin (type 4) on message stream 1, a conformant peer that received every RETURNED packet decodes type {} on message stream {}", sb.type_id, sb.message_stream_id);
        std::process::exit(1);
    }
    println!("not reproduced");
}
