// replay for known finding K-C12-bool (property C12): AMF0 2.3 "a zero byte value denotes false while a non-zero byte value
// denotes true"; rml_amf0 decodes only the byte 01 as true.  Prints one line per probe; exit code 1 if the deviation reproduces.
// usage: c12_bool
use rml_amf0::{deserialize, Amf0Value};
use std::io::Cursor;
fn main() {
    let mut deviates = false;
    for byte in [0u8, 1, 2, 0x7f, 0x80, 0xff] {
        let mut c = Cursor::new(vec![1u8, byte]);
        let got = deserialize(&mut c);
        let want = vec![Amf0Value::Boolean(byte != 0)];
        let ok = matches!(&got, Ok(v) if *v == want);
        println!("input 01 {:02x}: decoded {:?}, AMF0 2.3 denotes {:?} {}", byte, got.ok(), want, if ok { "" } else { "<-- DEVIATION" });
        if !ok { deviates = true; }
    }
    if deviates { println!("WITNESS K-C12-bool input=[01 02] got=Boolean(false) expected=Boolean(true)"); std::process::exit(1); }
}
