// Witness finder for the SESSION properties C09, C10, C15 (session part), C17, C18: drives the REAL ServerSession /
// ClientSession of the crate under test through scripted scenarios plus pseudo-random variations and compares what
// they return with oracles written from the property statements (/verif/properties.jsonl).  Peer byte streams are
// produced with the real ChunkSerializer (verified conformant, C07) from message bodies encoded HERE (own AMF0
// encoder, deterministic property order) or as raw reference chunks (ref_chunk, copied from chunk_witness.rs).
// It never decides a verdict; it only tries to turn a failed / undecided proof obligation into a concrete failing input.
// usage: session_witness <c09|c10|c15|c17|c18> [seed]     exit 1 + last line "WITNESS ..." if a failing input is found,
//        else exit 0 + "NONE".  Nothing here depends on wall-clock values: timestamps of session-generated messages
//        are never compared.  SW_DEBUG=1 prints the reference traces to stderr.
use bytes::Bytes;
use rml_amf0::Amf0Value;
use rml_rtmp::chunk_io::{ChunkDeserializer, ChunkSerializer, Packet};
use rml_rtmp::messages::{MessagePayload, RtmpMessage, UserControlEventType};
use rml_rtmp::sessions::{
    ClientSession, ClientSessionConfig, ClientSessionEvent, ClientSessionResult, PublishRequestType, ServerSession,
    ServerSessionConfig, ServerSessionEvent, ServerSessionResult, StreamMetadata,
};
use rml_rtmp::time::RtmpTimestamp;
use std::collections::{HashMap, HashSet};
use std::panic::{catch_unwind, AssertUnwindSafe};
use std::sync::Mutex;

// ---------------------------------------------------------------- small utilities
struct Rng(u64);
impl Rng {
    fn next(&mut self) -> u64 { self.0 = self.0.wrapping_mul(6364136223846793005).wrapping_add(1442695040888963407); self.0 >> 33 }
    fn pick<T: Copy>(&mut self, v: &[T]) -> T { v[(self.next() % v.len() as u64) as usize] }
    fn below(&mut self, n: u64) -> u64 { self.next() % n }
}
static CTX: Mutex<String> = Mutex::new(String::new());
fn ctx(s: String) { if let Ok(mut g) = CTX.lock() { *g = s; } }
fn get_ctx() -> String { CTX.lock().map(|g| g.clone()).unwrap_or_default() }
fn trunc(s: &str, n: usize) -> String { if s.len() <= n { s.to_string() } else { let mut k = n; while !s.is_char_boundary(k) { k -= 1; } format!("{}...({} chars)", &s[..k], s.len()) } }
fn witness(s: String) -> ! { println!("WITNESS {}", trunc(&s.replace('\n', " "), 2800)); std::process::exit(1) }
fn debug() -> bool { std::env::var("SW_DEBUG").map(|v| v == "1").unwrap_or(false) }
fn payload(n: usize, salt: u8) -> Vec<u8> { (0..n).map(|i| (i as u8).wrapping_mul(7).wrapping_add(salt)).collect() }
fn guard<T>(what: &str, f: impl FnOnce() -> T) -> Result<T, String> {
    catch_unwind(AssertUnwindSafe(f)).map_err(|e| {
        let m = e.downcast_ref::<&str>().map(|s| s.to_string()).or_else(|| e.downcast_ref::<String>().cloned()).unwrap_or_default();
        format!("PANIC in {} ({})", what, trunc(&m, 200))
    })
}

// ---------------------------------------------------------------- own AMF0 encoder (AMF0 spec 2.2-2.5, 2.7), deterministic order
#[derive(Clone, Debug)]
enum A { N(f64), B(bool), S(String), O(Vec<(String, A)>), Null }
fn s(x: &str) -> A { A::S(x.to_string()) }
fn o(kv: &[(&str, A)]) -> A { A::O(kv.iter().map(|(k, v)| (k.to_string(), v.clone())).collect()) }
fn enc_a(v: &A, out: &mut Vec<u8>) {
    match v {
        A::N(x) => { out.push(0); out.extend_from_slice(&x.to_be_bytes()); }
        A::B(b) => { out.push(1); out.push(*b as u8); }
        A::S(t) => { out.push(2); out.extend_from_slice(&(t.len() as u16).to_be_bytes()); out.extend_from_slice(t.as_bytes()); }
        A::O(kv) => { out.push(3); for (k, v) in kv { out.extend_from_slice(&(k.len() as u16).to_be_bytes()); out.extend_from_slice(k.as_bytes()); enc_a(v, out); } out.extend_from_slice(&[0, 0, 9]); }
        A::Null => out.push(5),
    }
}
fn body(vals: &[A]) -> Vec<u8> { let mut b = vec![]; for v in vals { enc_a(v, &mut b); } b }
fn cmd_body(name: &str, tx: f64, obj: A, args: &[A]) -> Vec<u8> { let mut v = vec![s(name), A::N(tx), obj]; v.extend_from_slice(args); body(&v) }
fn status(code: &str) -> A { o(&[("level", s("status")), ("code", s(code)), ("description", s("d"))]) }
fn meta_obj() -> A { o(&[("width", A::N(1920.0)), ("height", A::N(1080.0)), ("videocodecid", A::N(7.0)), ("framerate", A::N(30.0)), ("stereo", A::B(true)), ("encoder", s("enc/1.0"))]) }
fn connect_obj(app: &str, big: bool) -> A {
    if big { o(&[("app", s(app)), ("flashVer", s("FMLE/3.0 (compatible; FMSc/1.0)")), ("swfUrl", s("rtmp://ingest.example.com:1935/live/some/long/path")),
                 ("tcUrl", s("rtmp://ingest.example.com:1935/live/some/long/path")), ("type", s("nonprivate")), ("objectEncoding", A::N(0.0))]) }
    else { o(&[("app", s(app))]) }
}

// ---------------------------------------------------------------- the peer: real ChunkSerializer over bodies encoded here
struct Peer { ser: ChunkSerializer }
impl Peer {
    fn new() -> Peer { Peer { ser: ChunkSerializer::new() } }
    fn raw(&mut self, ty: u8, ts: u32, msid: u32, data: Vec<u8>) -> Vec<u8> { self.raw_f(ty, ts, msid, data, false) }
    fn raw_f(&mut self, ty: u8, ts: u32, msid: u32, data: Vec<u8>, force: bool) -> Vec<u8> {
        let p = MessagePayload { timestamp: RtmpTimestamp::new(ts), type_id: ty, message_stream_id: msid, data: Bytes::from(data) };
        match guard("peer serialize", || self.ser.serialize(&p, force, false)) { Ok(Ok(pk)) => pk.bytes, Ok(Err(e)) => witness(format!("peer-side ChunkSerializer::serialize refused a valid message: {}", e)), Err(e) => witness(e) }
    }
    fn cmd(&mut self, name: &str, tx: f64, obj: A, args: &[A], msid: u32) -> Vec<u8> { self.raw(20, 0, msid, cmd_body(name, tx, obj, args)) }
    fn data(&mut self, vals: &[A], ts: u32, msid: u32) -> Vec<u8> { self.raw(18, ts, msid, body(vals)) }
    fn scs(&mut self, n: u32) -> Vec<u8> { match self.ser.set_max_chunk_size(n, RtmpTimestamp::new(0)) { Ok(p) => p.bytes, Err(e) => witness(format!("peer-side set_max_chunk_size({}) refused: {}", n, e)) } }
    fn wack(&mut self, w: u32) -> Vec<u8> { self.raw(5, 0, 0, w.to_be_bytes().to_vec()) }
    fn ack(&mut self, n: u32) -> Vec<u8> { self.raw(3, 0, 0, n.to_be_bytes().to_vec()) }
    fn spb(&mut self, n: u32) -> Vec<u8> { let mut b = n.to_be_bytes().to_vec(); b.push(2); self.raw(6, 0, 0, b) }
    fn uc(&mut self, code: u16, fields: &[u32]) -> Vec<u8> { let mut b = code.to_be_bytes().to_vec(); for f in fields { b.extend_from_slice(&f.to_be_bytes()); } self.raw(4, 0, 0, b) }
    fn ping(&mut self, ts: u32) -> Vec<u8> { self.uc(6, &[ts]) }
    fn audio(&mut self, msid: u32, ts: u32, d: Vec<u8>) -> Vec<u8> { self.raw(8, ts, msid, d) }
    fn video(&mut self, msid: u32, ts: u32, d: Vec<u8>) -> Vec<u8> { self.raw(9, ts, msid, d) }
}

// ---------------------------------------------------------------- reference chunk encoder / decoder (RTMP 5.3.1), copied from chunk_witness.rs
#[derive(Clone, Debug, PartialEq)]
struct Msg { ts: u32, ty: u8, msid: u32, data: Vec<u8> }
fn ref_basic(fmt: u8, csid: u32, form: u8) -> Vec<u8> {
    match form {
        1 => vec![(fmt << 6) | csid as u8],
        2 => vec![fmt << 6, (csid - 64) as u8],
        _ => vec![(fmt << 6) | 1, ((csid - 64) % 256) as u8, ((csid - 64) / 256) as u8],
    }
}
fn be24(v: u32) -> [u8; 3] { [(v >> 16) as u8, (v >> 8) as u8, v as u8] }
fn ref_chunk(fmt: u8, csid: u32, form: u8, tsf: u32, len: u32, ty: u8, msid: u32, payload: &[u8]) -> Vec<u8> {
    let mut v = ref_basic(fmt, csid, form);
    let f24 = if tsf >= 0xFFFFFF { 0xFFFFFF } else { tsf };
    if fmt <= 2 { v.extend_from_slice(&be24(f24)); }
    if fmt <= 1 { v.extend_from_slice(&be24(len)); v.push(ty); }
    if fmt == 0 { v.extend_from_slice(&msid.to_le_bytes()); }
    if tsf >= 0xFFFFFF { v.extend_from_slice(&tsf.to_be_bytes()); }
    v.extend_from_slice(payload);
    v
}
// one whole message as reference chunks: first chunk in format `fmt`, continuation chunks format 3 (extended timestamp repeated)
fn ref_message(mcs: usize, fmt: u8, csid: u32, form: u8, tsf: u32, ty: u8, msid: u32, data: &[u8]) -> Vec<u8> {
    let mut out = vec![];
    let n = if data.is_empty() { 1 } else { (data.len() + mcs - 1) / mcs };
    for c in 0..n { let sl = &data[c * mcs..std::cmp::min((c + 1) * mcs, data.len())]; out.extend(ref_chunk(if c == 0 { fmt } else { 3 }, csid, form, tsf, data.len() as u32, ty, msid, sl)); }
    out
}
#[derive(Clone, Default)]
struct RHdr { ts: u32, delta: u32, len: u32, ty: u8, msid: u32 }
struct RefDecoder { mcs: usize, prev: HashMap<u32, RHdr>, partial: HashMap<u32, Vec<u8>> }
impl RefDecoder {
    fn new() -> Self { RefDecoder { mcs: 128, prev: HashMap::new(), partial: HashMap::new() } }
    fn decode_all(&mut self, b: &[u8]) -> Result<Vec<Msg>, String> {
        let mut out = vec![];
        let mut i = 0usize;
        while i < b.len() {
            let fmt = b[i] >> 6;
            let low = (b[i] & 63) as u32;
            let (csid, n) = if low == 0 { if i + 2 > b.len() { return Err("trunc basic".into()); } (b[i + 1] as u32 + 64, 2) }
                else if low == 1 { if i + 3 > b.len() { return Err("trunc basic".into()); } (b[i + 2] as u32 * 256 + b[i + 1] as u32 + 64, 3) }
                else { (low, 1) };
            i += n;
            let first = self.partial.get(&csid).map(|p| p.is_empty()).unwrap_or(true);
            let mut h = if fmt == 0 { RHdr::default() } else { self.prev.get(&csid).cloned().ok_or_else(|| format!("no previous header on csid {}", csid))? };
            let need = match fmt { 0 => 11, 1 => 7, 2 => 3, _ => 0 };
            if i + need > b.len() { return Err("trunc header".into()); }
            let mut field = 0u32;
            if fmt <= 2 { field = (b[i] as u32) << 16 | (b[i + 1] as u32) << 8 | b[i + 2] as u32; i += 3; }
            if fmt <= 1 { h.len = (b[i] as u32) << 16 | (b[i + 1] as u32) << 8 | b[i + 2] as u32; h.ty = b[i + 3]; i += 4; }
            if fmt == 0 { h.msid = u32::from_le_bytes([b[i], b[i + 1], b[i + 2], b[i + 3]]); i += 4; }
            let has_ext = if fmt == 3 { h.delta >= 0xFFFFFF } else { field == 0xFFFFFF };
            let mut val = if fmt == 3 { h.delta } else { field };
            if has_ext { if i + 4 > b.len() { return Err("trunc ext".into()); } val = u32::from_be_bytes([b[i], b[i + 1], b[i + 2], b[i + 3]]); i += 4; }
            if fmt == 0 { h.ts = val; h.delta = val; }
            else if first { h.ts = h.ts.wrapping_add(val); h.delta = val; }
            let p = self.partial.entry(csid).or_default();
            if (h.len as usize) < p.len() { return Err("header announces less than buffered".into()); }
            let take = std::cmp::min(h.len as usize - p.len(), self.mcs);
            if i + take > b.len() { return Err("trunc payload".into()); }
            p.extend_from_slice(&b[i..i + take]); i += take;
            if p.len() == h.len as usize {
                let data = std::mem::take(p);
                let m = Msg { ts: h.ts, ty: h.ty, msid: h.msid, data };
                if m.ty == 1 && m.data.len() >= 4 {
                    let sz = u32::from_be_bytes([m.data[0], m.data[1], m.data[2], m.data[3]]);
                    if sz >= 1 && sz <= 0x7FFF_FFFF { self.mcs = sz as usize; }
                }
                out.push(m);
            }
            self.prev.insert(csid, h);
        }
        if self.partial.values().any(|p| !p.is_empty()) { return Err("stream ends inside a message".into()); }
        Ok(out)
    }
}

// ---------------------------------------------------------------- canonical text of decoded messages (object keys sorted)
fn camf(v: &Amf0Value) -> String {
    match v {
        Amf0Value::Object(m) => { let mut k: Vec<_> = m.iter().collect(); k.sort_by(|a, b| a.0.cmp(b.0)); format!("{{{}}}", k.iter().map(|(k, v)| format!("{}:{}", k, camf(v))).collect::<Vec<_>>().join(",")) }
        Amf0Value::StrictArray(a) => format!("[{}]", a.iter().map(camf).collect::<Vec<_>>().join(",")),
        other => format!("{:?}", other),
    }
}
fn camfs(v: &[Amf0Value]) -> String { v.iter().map(camf).collect::<Vec<_>>().join(",") }
fn sum(d: &[u8]) -> u32 { d.iter().fold(17u32, |a, &b| a.wrapping_mul(31).wrapping_add(b as u32)) }
fn cmsg(m: &RtmpMessage) -> String {
    match m {
        RtmpMessage::Amf0Command { command_name, transaction_id, command_object, additional_arguments } => format!("Cmd({},tx={:?},obj={},args=[{}])", command_name, transaction_id, camf(command_object), camfs(additional_arguments)),
        RtmpMessage::Amf0Data { values } => format!("Data([{}])", camfs(values)),
        RtmpMessage::AudioData { data } => format!("Audio(len={},sum={:x})", data.len(), sum(data)),
        RtmpMessage::VideoData { data } => format!("Video(len={},sum={:x})", data.len(), sum(data)),
        RtmpMessage::Unknown { type_id, data } => format!("Unknown(ty={},len={},sum={:x})", type_id, data.len(), sum(data)),
        other => format!("{:?}", other),
    }
}
// one decoded outbound message of a session (its timestamp is wall-clock derived and deliberately not kept)
#[derive(Clone, Debug)]
struct Out { ty: u8, msid: u32, msg: RtmpMessage }
impl Out {
    fn kind(&self) -> String { format!("{}@msid{}", cmsg(&self.msg), self.msid) }
    fn is_ack(&self) -> bool { matches!(self.msg, RtmpMessage::Acknowledgement { .. }) }
    fn cmd(&self, name: &str) -> Option<(f64, &Amf0Value, &Vec<Amf0Value>)> {
        match &self.msg { RtmpMessage::Amf0Command { command_name, transaction_id, command_object, additional_arguments } if command_name == name => Some((*transaction_id, command_object, additional_arguments)), _ => None }
    }
    fn ping_response(&self) -> Option<u32> {
        match &self.msg { RtmpMessage::UserControl { event_type: UserControlEventType::PingResponse, timestamp: Some(t), .. } => Some(t.value), _ => None }
    }
}
fn kinds(v: &[Out]) -> String { format!("[{}]", v.iter().map(|x| trunc(&x.kind(), 160)).collect::<Vec<_>>().join(" | ")) }
// what the peer of a session sees: the REAL deserializer (one per session), SetChunkSize honoured
struct OutDec { d: ChunkDeserializer }
impl OutDec {
    fn new() -> OutDec { OutDec { d: ChunkDeserializer::new() } }
    fn feed(&mut self, bytes: &[u8]) -> Result<Vec<Out>, String> {
        let mut out = vec![];
        let mut input: &[u8] = bytes;
        loop {
            let r = guard("peer ChunkDeserializer", || self.d.get_next_message(input))?;
            input = &[];
            match r {
                Err(e) => return Err(format!("the session's output does not decode: {}", e)),
                Ok(None) => break,
                Ok(Some(p)) => {
                    let m = match guard("to_rtmp_message", || p.to_rtmp_message())? { Ok(m) => m, Err(e) => return Err(format!("the session emitted a malformed message of type {}: {}", p.type_id, e)) };
                    if let RtmpMessage::SetChunkSize { size } = m { if let Err(e) = self.d.set_max_chunk_size(size as usize) { return Err(format!("session announced chunk size {}: {}", size, e)); } }
                    out.push(Out { ty: p.type_id, msid: p.message_stream_id, msg: m });
                }
            }
        }
        Ok(out)
    }
}
fn sev(e: &ServerSessionEvent) -> String {
    match e {
        ServerSessionEvent::UnhandleableAmf0Command { command_name, transaction_id, command_object, additional_values } => format!("UnhandleableAmf0Command({},tx={:?},obj={},args=[{}])", command_name, transaction_id, camf(command_object), camfs(additional_values)),
        other => format!("{:?}", other),
    }
}
fn cev(e: &ClientSessionEvent) -> String {
    match e {
        ClientSessionEvent::UnhandleableAmf0Command { command_name, transaction_id, command_object, additional_values } => format!("UnhandleableAmf0Command({},tx={:?},obj={},args=[{}])", command_name, transaction_id, camf(command_object), camfs(additional_values)),
        ClientSessionEvent::UnknownTransactionResultReceived { transaction_id, command_object, additional_values } => format!("UnknownTransactionResultReceived(tx={:?},obj={},args=[{}])", transaction_id, camf(command_object), camfs(additional_values)),
        other => format!("{:?}", other),
    }
}
fn sreq_id(e: &ServerSessionEvent) -> Option<u32> {
    match e {
        ServerSessionEvent::ConnectionRequested { request_id, .. } | ServerSessionEvent::PublishStreamRequested { request_id, .. }
        | ServerSessionEvent::PlayStreamRequested { request_id, .. } | ServerSessionEvent::ReleaseStreamRequested { request_id, .. } => Some(*request_id),
        _ => None,
    }
}

//@@MODES@@

fn main() {
    let a: Vec<String> = std::env::args().collect();
    let mode = a.get(1).map(|s| s.to_lowercase()).unwrap_or_default();
    let seed: u64 = a.get(2).and_then(|s| s.parse().ok()).unwrap_or(0);
    std::panic::set_hook(Box::new(|_| {}));
    let r = guard("the finder", || match mode.as_str() {
        "c09" => mode_c09(seed),
        "c10" => mode_c10(seed),
        "c15" => mode_c15(seed),
        "c17" => mode_c17(seed),
        "c18" => mode_c18(seed),
        _ => { eprintln!("usage: session_witness <c09|c10|c15|c17|c18> [seed]"); std::process::exit(2) }
    });
    if let Err(e) = r { witness(format!("[{}] {} while running: {}", mode, e, get_ctx())); }
    println!("NONE");
}
