// Witness finder for the SESSION properties C02, C09, C10, C15 (session part), C17, C18 and the session parts of C19 and C03: drives the REAL ServerSession /
// ClientSession of the crate under test through scripted scenarios plus pseudo-random variations and compares what
// they return with oracles written from the property statements (/verif/properties.jsonl).  Peer byte streams are
// produced with the real ChunkSerializer (verified conformant, C07) from message bodies encoded HERE (own AMF0
// encoder, deterministic property order) or as raw reference chunks (ref_chunk, copied from chunk_witness.rs).
// It never decides a verdict; it only tries to turn a failed / undecided proof obligation into a concrete failing input.
// usage: session_witness <c02|c09|c10|c15|c17|c18|c19|c03> [seed]     exit 1 + last line "WITNESS ..." if a failing input is found,
//        else exit 0 + "NONE".  Nothing here depends on wall-clock values: timestamps of session-generated messages
//        are never compared.  Every call into the crate under test runs under a watchdog (a call that does not return within
//        2.5 s is a WITNESS "HANG ...") and under a counting global allocator (live heap above the budget is a WITNESS).
//        SW_DEBUG=1 prints the reference traces and coverage counters to stderr.
//        SW_STRICT=1 additionally applies the LITERAL reading of the statements where the unchanged tree is known to deviate
//        (reported as WITNESS [strict] ...; without it these situations are not generated, so the unchanged tree gives NONE):
//          c10: `_result` with a fractional transaction id (1.5) is applied to transaction 1;  c17: bytes that follow the WindowAcknowledgement in the same
//               input call are never counted;  c15: connect + createStream + publish delivered in ONE call (the application
//               cannot accept the connection in between) answers publish with an error, byte-by-byte delivery does not.
use bytes::Bytes;
use rml_amf0::Amf0Value;
use rml_rtmp::chunk_io::{ChunkDeserializer, ChunkSerializer, Packet};
use rml_rtmp::messages::{MessagePayload, RtmpMessage, UserControlEventType};
use rml_rtmp::sessions::{
    ClientSession, ClientSessionConfig, ClientSessionEvent, ClientSessionResult, PublishMode, PublishRequestType, ServerSession,
    ServerSessionConfig, ServerSessionEvent, ServerSessionResult, StreamMetadata,
};
use rml_rtmp::time::RtmpTimestamp;
use std::collections::{HashMap, HashSet};
use std::panic::{catch_unwind, AssertUnwindSafe};
use std::alloc::{GlobalAlloc, Layout, System};
use std::sync::atomic::{AtomicBool, AtomicU64, AtomicUsize, Ordering};
use std::sync::Mutex;

// ---------------------------------------------------------------- small utilities
struct Rng(u64);
impl Rng {
    fn next(&mut self) -> u64 { self.0 = self.0.wrapping_mul(6364136223846793005).wrapping_add(1442695040888963407); self.0 >> 33 }
    fn pick<T: Copy>(&mut self, v: &[T]) -> T { v[(self.next() % v.len() as u64) as usize] }
    fn below(&mut self, n: u64) -> u64 { self.next() % n }
}
static CTX: Mutex<String> = Mutex::new(String::new());
static STATS: Mutex<Vec<(String, u64)>> = Mutex::new(Vec::new());   // coverage counters, printed with SW_DEBUG=1
fn stat(k: &str) { if let Ok(mut g) = STATS.lock() { if let Some(e) = g.iter_mut().find(|e| e.0 == k) { e.1 += 1; } else { g.push((k.to_string(), 1)); } } }
fn ctx(s: String) { if let Ok(mut g) = CTX.lock() { *g = s; } }
fn get_ctx() -> String { CTX.lock().map(|g| g.clone()).unwrap_or_default() }
fn trunc(s: &str, n: usize) -> String { if s.len() <= n { s.to_string() } else { let mut k = n; while !s.is_char_boundary(k) { k -= 1; } format!("{}...({} chars)", &s[..k], s.len()) } }
fn witness(s: String) -> ! { println!("WITNESS {}", trunc(&s.replace('\n', " "), 2800)); std::process::exit(1) }
fn strict() -> bool { std::env::var("SW_STRICT").map(|v| v != "0" && !v.is_empty()).unwrap_or(false) }
fn debug() -> bool { std::env::var("SW_DEBUG").map(|v| v == "1").unwrap_or(false) }
fn payload(n: usize, salt: u8) -> Vec<u8> { (0..n).map(|i| (i as u8).wrapping_mul(7).wrapping_add(salt)).collect() }
// ---- safety nets: catch_unwind cannot stop a call that never returns or allocates without bound
static MODE: Mutex<String> = Mutex::new(String::new());
static LIVE: AtomicUsize = AtomicUsize::new(0);
static LIMIT: AtomicUsize = AtomicUsize::new(usize::MAX);
static TRIPPED: AtomicBool = AtomicBool::new(false);
static CALL_START: AtomicU64 = AtomicU64::new(0);     // ms since program start (+1) at which the call in progress began; 0 = no call in progress
struct Counting;
fn over_budget(n: usize) {
    if TRIPPED.swap(true, Ordering::SeqCst) { return; }
    let lim = LIMIT.swap(usize::MAX, Ordering::SeqCst);
    let c = CTX.try_lock().map(|g| g.clone()).unwrap_or_default();
    let m = MODE.try_lock().map(|g| g.clone()).unwrap_or_default();
    witness(format!("[{}] UNBOUNDED ALLOCATION: the live heap reached {} bytes (budget {} bytes) inside one call into the crate under test; last step: {}", m, n, lim, c));
}
unsafe impl GlobalAlloc for Counting {
    unsafe fn alloc(&self, l: Layout) -> *mut u8 { let n = LIVE.fetch_add(l.size(), Ordering::Relaxed) + l.size(); if n > LIMIT.load(Ordering::Relaxed) { over_budget(n); } System.alloc(l) }
    unsafe fn dealloc(&self, p: *mut u8, l: Layout) { LIVE.fetch_sub(l.size(), Ordering::Relaxed); System.dealloc(p, l) }
    unsafe fn realloc(&self, p: *mut u8, l: Layout, new: usize) -> *mut u8 {
        if new > l.size() { let n = LIVE.fetch_add(new - l.size(), Ordering::Relaxed) + (new - l.size()); if n > LIMIT.load(Ordering::Relaxed) { over_budget(n); } } else { LIVE.fetch_sub(l.size() - new, Ordering::Relaxed); }
        System.realloc(p, l, new)
    }
}
#[global_allocator]
static GLOBAL: Counting = Counting;
// run f with at most `extra` bytes of additional live heap
fn with_budget<T>(extra: usize, f: impl FnOnce() -> T) -> T {
    let old = LIMIT.swap(LIVE.load(Ordering::SeqCst).saturating_add(extra), Ordering::SeqCst);
    let r = f();
    if !TRIPPED.load(Ordering::SeqCst) { LIMIT.store(old, Ordering::SeqCst); }
    r
}
fn now_ms() -> u64 { static T0: std::sync::OnceLock<std::time::Instant> = std::sync::OnceLock::new(); T0.get_or_init(std::time::Instant::now).elapsed().as_millis() as u64 + 1 }
const CALL_TIMEOUT_MS: u64 = 2500;
// CPU time of this process in ms (utime + stime of /proc/self/stat, 100 ticks per second)
fn proc_cpu_ms() -> u64 {
    std::fs::read_to_string("/proc/self/stat").ok().and_then(|t| { let r = t.rfind(')')?; let f: Vec<&str> = t[r + 1..].split_whitespace().collect();
        Some((f.get(11)?.parse::<u64>().ok()? + f.get(12)?.parse::<u64>().ok()?) * 10) }).unwrap_or(0)
}
// A call is reported as a hang when it has been running for more than CALL_TIMEOUT_MS of wall time AND this process has burnt at least
// 2 s of CPU since the watchdog first saw that call (a library call that does not return spins; on a loaded machine a descheduled
// process must not look like one), or after 120 s of wall time whatever the CPU time.
fn start_watchdog() {
    let _ = now_ms();
    std::thread::spawn(|| { let (mut seen, mut cpu0) = (0u64, 0u64); loop {
        std::thread::sleep(std::time::Duration::from_millis(50));
        let s = CALL_START.load(Ordering::SeqCst);
        if s != seen { seen = s; cpu0 = proc_cpu_ms(); }
        let wall = now_ms().saturating_sub(s);
        if s != 0 && wall > CALL_TIMEOUT_MS && (proc_cpu_ms().saturating_sub(cpu0) >= 2000 || wall > 120_000) {
            LIMIT.store(usize::MAX, Ordering::SeqCst); TRIPPED.store(true, Ordering::SeqCst);
            let c = CTX.try_lock().map(|g| g.clone()).unwrap_or_default();
            let m = MODE.try_lock().map(|g| g.clone()).unwrap_or_default();
            witness(format!("[{}] HANG: a call into the crate under test has not returned after {} ms of wall time and 2 s of CPU time; last step: {}", m, wall, c));
        }
    } });
}
// every call into the crate under test goes through here: panics are caught, the watchdog sees the call
fn guard<T>(what: &str, f: impl FnOnce() -> T) -> Result<T, String> {
    CALL_START.store(now_ms(), Ordering::SeqCst);
    let r = catch_unwind(AssertUnwindSafe(f));
    CALL_START.store(0, Ordering::SeqCst);
    r.map_err(|e| {
        let m = e.downcast_ref::<&str>().map(|s| s.to_string()).or_else(|| e.downcast_ref::<String>().cloned()).unwrap_or_default();
        format!("PANIC in {} ({})", what, trunc(&m, 200))
    })
}

// ---------------------------------------------------------------- own AMF0 encoder (AMF0 spec 2.2-2.5, 2.7), deterministic order
#[derive(Clone, Debug)]
enum A { N(f64), B(bool), S(String), O(Vec<(String, A)>), Null }
fn s(x: &str) -> A { A::S(x.to_string()) }
fn o(kv: &[(&str, A)]) -> A { A::O(kv.iter().map(|(k, v)| (k.to_string(), v.clone())).collect()) }
fn enc_a(v: &A, out: &mut Vec<u8>) {
    match v {
        A::N(x) => { out.push(0); out.extend_from_slice(&x.to_be_bytes()); }
        A::B(b) => { out.push(1); out.push(*b as u8); }
        A::S(t) => { out.push(2); out.extend_from_slice(&(t.len() as u16).to_be_bytes()); out.extend_from_slice(t.as_bytes()); }
        A::O(kv) => { out.push(3); for (k, v) in kv { out.extend_from_slice(&(k.len() as u16).to_be_bytes()); out.extend_from_slice(k.as_bytes()); enc_a(v, out); } out.extend_from_slice(&[0, 0, 9]); }
        A::Null => out.push(5),
    }
}
fn body(vals: &[A]) -> Vec<u8> { let mut b = vec![]; for v in vals { enc_a(v, &mut b); } b }
fn cmd_body(name: &str, tx: f64, obj: A, args: &[A]) -> Vec<u8> { let mut v = vec![s(name), A::N(tx), obj]; v.extend_from_slice(args); body(&v) }
fn status(code: &str) -> A { o(&[("level", s("status")), ("code", s(code)), ("description", s("d"))]) }
fn meta_obj() -> A { o(&[("width", A::N(1920.0)), ("height", A::N(1080.0)), ("videocodecid", A::N(7.0)), ("framerate", A::N(30.0)), ("stereo", A::B(true)), ("encoder", s("enc/1.0"))]) }
fn connect_obj(app: &str, big: bool) -> A {
    if big { o(&[("app", s(app)), ("flashVer", s("FMLE/3.0 (compatible; FMSc/1.0)")), ("swfUrl", s("rtmp://ingest.example.com:1935/live/some/long/path")),
                 ("tcUrl", s("rtmp://ingest.example.com:1935/live/some/long/path")), ("type", s("nonprivate")), ("objectEncoding", A::N(0.0))]) }
    else { o(&[("app", s(app))]) }
}

// ---------------------------------------------------------------- the peer: real ChunkSerializer over bodies encoded here
struct Peer { ser: ChunkSerializer }
impl Peer {
    fn new() -> Peer { Peer { ser: ChunkSerializer::new() } }
    fn raw(&mut self, ty: u8, ts: u32, msid: u32, data: Vec<u8>) -> Vec<u8> { self.raw_f(ty, ts, msid, data, false) }
    fn raw_f(&mut self, ty: u8, ts: u32, msid: u32, data: Vec<u8>, force: bool) -> Vec<u8> {
        let p = MessagePayload { timestamp: RtmpTimestamp::new(ts), type_id: ty, message_stream_id: msid, data: Bytes::from(data) };
        match guard("peer serialize", || self.ser.serialize(&p, force, false)) { Ok(Ok(pk)) => pk.bytes, Ok(Err(e)) => witness(format!("peer-side ChunkSerializer::serialize refused a valid message: {}", e)), Err(e) => witness(e) }
    }
    fn cmd(&mut self, name: &str, tx: f64, obj: A, args: &[A], msid: u32) -> Vec<u8> { self.raw(20, 0, msid, cmd_body(name, tx, obj, args)) }
    fn data(&mut self, vals: &[A], ts: u32, msid: u32) -> Vec<u8> { self.raw(18, ts, msid, body(vals)) }
    fn scs(&mut self, n: u32) -> Vec<u8> { match self.ser.set_max_chunk_size(n, RtmpTimestamp::new(0)) { Ok(p) => p.bytes, Err(e) => witness(format!("peer-side set_max_chunk_size({}) refused: {}", n, e)) } }
    fn wack(&mut self, w: u32) -> Vec<u8> { self.raw(5, 0, 0, w.to_be_bytes().to_vec()) }
    fn ack(&mut self, n: u32) -> Vec<u8> { self.raw(3, 0, 0, n.to_be_bytes().to_vec()) }
    fn spb(&mut self, n: u32) -> Vec<u8> { self.spb_t(n, 2) }
    fn spb_t(&mut self, n: u32, limit_type: u8) -> Vec<u8> { let mut b = n.to_be_bytes().to_vec(); b.push(limit_type); self.raw(6, 0, 0, b) }   // 0 hard, 1 soft, 2 dynamic
    fn abort(&mut self, csid: u32) -> Vec<u8> { self.raw(2, 0, 0, csid.to_be_bytes().to_vec()) }
    fn uc(&mut self, code: u16, fields: &[u32]) -> Vec<u8> { let mut b = code.to_be_bytes().to_vec(); for f in fields { b.extend_from_slice(&f.to_be_bytes()); } self.raw(4, 0, 0, b) }
    fn ping(&mut self, ts: u32) -> Vec<u8> { self.uc(6, &[ts]) }
    fn audio(&mut self, msid: u32, ts: u32, d: Vec<u8>) -> Vec<u8> { self.raw(8, ts, msid, d) }
    fn video(&mut self, msid: u32, ts: u32, d: Vec<u8>) -> Vec<u8> { self.raw(9, ts, msid, d) }
}

// ---------------------------------------------------------------- reference chunk encoder / decoder (RTMP 5.3.1), copied from chunk_witness.rs
#[derive(Clone, Debug, PartialEq)]
struct Msg { ts: u32, ty: u8, msid: u32, data: Vec<u8> }
fn ref_basic(fmt: u8, csid: u32, form: u8) -> Vec<u8> {
    match form {
        1 => vec![(fmt << 6) | csid as u8],
        2 => vec![fmt << 6, (csid - 64) as u8],
        _ => vec![(fmt << 6) | 1, ((csid - 64) % 256) as u8, ((csid - 64) / 256) as u8],
    }
}
fn be24(v: u32) -> [u8; 3] { [(v >> 16) as u8, (v >> 8) as u8, v as u8] }
fn ref_chunk(fmt: u8, csid: u32, form: u8, tsf: u32, len: u32, ty: u8, msid: u32, payload: &[u8]) -> Vec<u8> {
    let mut v = ref_basic(fmt, csid, form);
    let f24 = if tsf >= 0xFFFFFF { 0xFFFFFF } else { tsf };
    if fmt <= 2 { v.extend_from_slice(&be24(f24)); }
    if fmt <= 1 { v.extend_from_slice(&be24(len)); v.push(ty); }
    if fmt == 0 { v.extend_from_slice(&msid.to_le_bytes()); }
    if tsf >= 0xFFFFFF { v.extend_from_slice(&tsf.to_be_bytes()); }
    v.extend_from_slice(payload);
    v
}
// one whole message as reference chunks: first chunk in format `fmt`, continuation chunks format 3 (extended timestamp repeated)
fn ref_message(mcs: usize, fmt: u8, csid: u32, form: u8, tsf: u32, ty: u8, msid: u32, data: &[u8]) -> Vec<u8> {
    let mut out = vec![];
    let n = if data.is_empty() { 1 } else { (data.len() + mcs - 1) / mcs };
    for c in 0..n { let sl = &data[c * mcs..std::cmp::min((c + 1) * mcs, data.len())]; out.extend(ref_chunk(if c == 0 { fmt } else { 3 }, csid, form, tsf, data.len() as u32, ty, msid, sl)); }
    out
}
#[derive(Clone, Default)]
struct RHdr { ts: u32, delta: u32, len: u32, ty: u8, msid: u32 }
struct RefDecoder { mcs: usize, prev: HashMap<u32, RHdr>, partial: HashMap<u32, Vec<u8>> }
impl RefDecoder {
    fn new() -> Self { RefDecoder { mcs: 128, prev: HashMap::new(), partial: HashMap::new() } }
    fn decode_all(&mut self, b: &[u8]) -> Result<Vec<Msg>, String> {
        let mut out = vec![];
        let mut i = 0usize;
        while i < b.len() {
            let fmt = b[i] >> 6;
            let low = (b[i] & 63) as u32;
            let (csid, n) = if low == 0 { if i + 2 > b.len() { return Err("trunc basic".into()); } (b[i + 1] as u32 + 64, 2) }
                else if low == 1 { if i + 3 > b.len() { return Err("trunc basic".into()); } (b[i + 2] as u32 * 256 + b[i + 1] as u32 + 64, 3) }
                else { (low, 1) };
            i += n;
            let first = self.partial.get(&csid).map(|p| p.is_empty()).unwrap_or(true);
            let mut h = if fmt == 0 { RHdr::default() } else { self.prev.get(&csid).cloned().ok_or_else(|| format!("no previous header on csid {}", csid))? };
            let need = match fmt { 0 => 11, 1 => 7, 2 => 3, _ => 0 };
            if i + need > b.len() { return Err("trunc header".into()); }
            let mut field = 0u32;
            if fmt <= 2 { field = (b[i] as u32) << 16 | (b[i + 1] as u32) << 8 | b[i + 2] as u32; i += 3; }
            if fmt <= 1 { h.len = (b[i] as u32) << 16 | (b[i + 1] as u32) << 8 | b[i + 2] as u32; h.ty = b[i + 3]; i += 4; }
            if fmt == 0 { h.msid = u32::from_le_bytes([b[i], b[i + 1], b[i + 2], b[i + 3]]); i += 4; }
            let has_ext = if fmt == 3 { h.delta >= 0xFFFFFF } else { field == 0xFFFFFF };
            let mut val = if fmt == 3 { h.delta } else { field };
            if has_ext { if i + 4 > b.len() { return Err("trunc ext".into()); } val = u32::from_be_bytes([b[i], b[i + 1], b[i + 2], b[i + 3]]); i += 4; }
            if fmt == 0 { h.ts = val; h.delta = val; }
            else if first { h.ts = h.ts.wrapping_add(val); h.delta = val; }
            let p = self.partial.entry(csid).or_default();
            if (h.len as usize) < p.len() { return Err("header announces less than buffered".into()); }
            let take = std::cmp::min(h.len as usize - p.len(), self.mcs);
            if i + take > b.len() { return Err("trunc payload".into()); }
            p.extend_from_slice(&b[i..i + take]); i += take;
            if p.len() == h.len as usize {
                let data = std::mem::take(p);
                let m = Msg { ts: h.ts, ty: h.ty, msid: h.msid, data };
                if m.ty == 1 && m.data.len() >= 4 {
                    let sz = u32::from_be_bytes([m.data[0], m.data[1], m.data[2], m.data[3]]);
                    if sz >= 1 && sz <= 0x7FFF_FFFF { self.mcs = sz as usize; }
                }
                out.push(m);
            }
            self.prev.insert(csid, h);
        }
        if self.partial.values().any(|p| !p.is_empty()) { return Err("stream ends inside a message".into()); }
        Ok(out)
    }
}

// ---------------------------------------------------------------- canonical text of decoded messages (object keys sorted)
fn camf(v: &Amf0Value) -> String {
    match v {
        Amf0Value::Object(m) => { let mut k: Vec<_> = m.iter().collect(); k.sort_by(|a, b| a.0.cmp(b.0)); format!("{{{}}}", k.iter().map(|(k, v)| format!("{}:{}", k, camf(v))).collect::<Vec<_>>().join(",")) }
        Amf0Value::StrictArray(a) => format!("[{}]", a.iter().map(camf).collect::<Vec<_>>().join(",")),
        other => format!("{:?}", other),
    }
}
fn camfs(v: &[Amf0Value]) -> String { v.iter().map(camf).collect::<Vec<_>>().join(",") }
fn sum(d: &[u8]) -> u32 { d.iter().fold(17u32, |a, &b| a.wrapping_mul(31).wrapping_add(b as u32)) }
fn cmsg(m: &RtmpMessage) -> String {
    match m {
        RtmpMessage::Amf0Command { command_name, transaction_id, command_object, additional_arguments } => format!("Cmd({},tx={:?},obj={},args=[{}])", command_name, transaction_id, camf(command_object), camfs(additional_arguments)),
        RtmpMessage::Amf0Data { values } => format!("Data([{}])", camfs(values)),
        RtmpMessage::AudioData { data } => format!("Audio(len={},sum={:x})", data.len(), sum(data)),
        RtmpMessage::VideoData { data } => format!("Video(len={},sum={:x})", data.len(), sum(data)),
        RtmpMessage::Unknown { type_id, data } => format!("Unknown(ty={},len={},sum={:x})", type_id, data.len(), sum(data)),
        other => format!("{:?}", other),
    }
}
// one decoded outbound message of a session (its timestamp is wall-clock derived and deliberately not kept)
#[derive(Clone, Debug)]
struct Out { ty: u8, msid: u32, msg: RtmpMessage }
impl Out {
    fn kind(&self) -> String { format!("{}@msid{}", cmsg(&self.msg), self.msid) }
    fn is_ack(&self) -> bool { matches!(self.msg, RtmpMessage::Acknowledgement { .. }) }
    fn cmd(&self, name: &str) -> Option<(f64, &Amf0Value, &Vec<Amf0Value>)> {
        match &self.msg { RtmpMessage::Amf0Command { command_name, transaction_id, command_object, additional_arguments } if command_name == name => Some((*transaction_id, command_object, additional_arguments)), _ => None }
    }
    fn ping_response(&self) -> Option<u32> {
        match &self.msg { RtmpMessage::UserControl { event_type: UserControlEventType::PingResponse, timestamp: Some(t), .. } => Some(t.value), _ => None }
    }
}
fn kinds(v: &[Out]) -> String { format!("[{}]", v.iter().map(|x| trunc(&x.kind(), 160)).collect::<Vec<_>>().join(" | ")) }
// what the peer of a session sees: the REAL deserializer (one per session), SetChunkSize honoured
struct OutDec { d: ChunkDeserializer }
impl OutDec {
    fn new() -> OutDec { OutDec { d: ChunkDeserializer::new() } }
    fn feed(&mut self, bytes: &[u8]) -> Result<Vec<Out>, String> {
        let mut out = vec![];
        let mut input: &[u8] = bytes;
        loop {
            let r = guard("peer ChunkDeserializer", || self.d.get_next_message(input))?;
            input = &[];
            match r {
                Err(e) => return Err(format!("the session's output does not decode: {}", e)),
                Ok(None) => break,
                Ok(Some(p)) => {
                    let m = match guard("to_rtmp_message", || p.to_rtmp_message())? { Ok(m) => m, Err(e) => return Err(format!("the session emitted a malformed message of type {}: {}", p.type_id, e)) };
                    if let RtmpMessage::SetChunkSize { size } = m { if let Err(e) = self.d.set_max_chunk_size(size as usize) { return Err(format!("session announced chunk size {}: {}", size, e)); } }
                    out.push(Out { ty: p.type_id, msid: p.message_stream_id, msg: m });
                }
            }
        }
        Ok(out)
    }
}
fn sev(e: &ServerSessionEvent) -> String {
    match e {
        ServerSessionEvent::UnhandleableAmf0Command { command_name, transaction_id, command_object, additional_values } => format!("UnhandleableAmf0Command({},tx={:?},obj={},args=[{}])", command_name, transaction_id, camf(command_object), camfs(additional_values)),
        other => format!("{:?}", other),
    }
}
fn cev(e: &ClientSessionEvent) -> String {
    match e {
        ClientSessionEvent::UnhandleableAmf0Command { command_name, transaction_id, command_object, additional_values } => format!("UnhandleableAmf0Command({},tx={:?},obj={},args=[{}])", command_name, transaction_id, camf(command_object), camfs(additional_values)),
        ClientSessionEvent::UnknownTransactionResultReceived { transaction_id, command_object, additional_values } => format!("UnknownTransactionResultReceived(tx={:?},obj={},args=[{}])", transaction_id, camf(command_object), camfs(additional_values)),
        other => format!("{:?}", other),
    }
}
fn sreq_id(e: &ServerSessionEvent) -> Option<u32> {
    match e {
        ServerSessionEvent::ConnectionRequested { request_id, .. } | ServerSessionEvent::PublishStreamRequested { request_id, .. }
        | ServerSessionEvent::PlayStreamRequested { request_id, .. } | ServerSessionEvent::ReleaseStreamRequested { request_id, .. } => Some(*request_id),
        _ => None,
    }
}

// ================================================================ C15: partition independence of both sessions
// A scenario is a list of SEGMENTS.  A message that makes the session raise a request the application has to answer
// (connect / publish / play on the server, the connect result on the client) is always the LAST message of its segment:
// the application's answer (accept_request / request_playback ...) is given right after the call that raised the event,
// as an application would.  Every partition delivers all bytes in order; cuts inside a segment are arbitrary.
fn run_server(chunk_cfg: u32, pieces: &[&[u8]]) -> Vec<String> {
    let mut tr = vec![];
    let mut cfg = ServerSessionConfig::new(); cfg.chunk_size = chunk_cfg;
    let (mut sess, init) = match guard("ServerSession::new", || ServerSession::new(cfg)) { Ok(Ok(x)) => x, Ok(Err(e)) => { tr.push(format!("ERR new: {}", e)); return tr } Err(e) => { tr.push(e); return tr } };
    let mut dec = OutDec::new();
    let absorb = |tr: &mut Vec<String>, dec: &mut OutDec, rs: Vec<ServerSessionResult>, pending: &mut Vec<u32>| -> bool {
        for r in rs { match r {
            ServerSessionResult::OutboundResponse(p) => match dec.feed(&p.bytes) { Ok(v) => for x in v { if !x.is_ack() { tr.push(format!("OUT {}", x.kind())); } }, Err(e) => { tr.push(format!("UNDECODABLE {}", e)); return false } },
            ServerSessionResult::RaisedEvent(e) => { if let Some(id) = sreq_id(&e) { pending.push(id); } tr.push(format!("EV {}", sev(&e))); }
            ServerSessionResult::UnhandleableMessageReceived(p) => tr.push(format!("UNH type={} msid={} ts={} len={} sum={:x}", p.type_id, p.message_stream_id, p.timestamp.value, p.data.len(), sum(&p.data))),
        } }
        true
    };
    let mut none = vec![];
    if !absorb(&mut tr, &mut dec, init, &mut none) { return tr; }
    for p in pieces {
        let rs = match guard("ServerSession::handle_input", || sess.handle_input(p)) { Err(e) => { tr.push(e); return tr } Ok(Err(e)) => { tr.push(format!("ERR {}", e)); return tr } Ok(Ok(v)) => v };
        let mut pending = vec![];
        if !absorb(&mut tr, &mut dec, rs, &mut pending) { return tr; }
        for id in pending {
            let rs = match guard("ServerSession::accept_request", || sess.accept_request(id)) { Err(e) => { tr.push(e); return tr } Ok(Err(e)) => { tr.push(format!("ERR accept: {}", e)); return tr } Ok(Ok(v)) => v };
            if !absorb(&mut tr, &mut dec, rs, &mut none) { return tr; }
        }
    }
    tr
}
// the same with an application that answers NOTHING while input is being delivered (requests are accepted after the last piece):
// then what a call returns may not depend on where the call boundaries fall even when further messages follow a request
fn run_server_deferred(chunk_cfg: u32, pieces: &[&[u8]]) -> Vec<String> {
    let mut tr = vec![];
    let mut cfg = ServerSessionConfig::new(); cfg.chunk_size = chunk_cfg;
    let (mut sess, init) = match guard("ServerSession::new", || ServerSession::new(cfg)) { Ok(Ok(x)) => x, Ok(Err(e)) => { tr.push(format!("ERR new: {}", e)); return tr } Err(e) => { tr.push(e); return tr } };
    let mut dec = OutDec::new(); let mut pending: Vec<u32> = vec![];
    let mut all: Vec<ServerSessionResult> = init;
    for p in pieces {
        match guard("ServerSession::handle_input", || sess.handle_input(p)) { Err(e) => { tr.push(e); return tr } Ok(Err(e)) => { tr.push(format!("ERR {}", e)); return tr } Ok(Ok(v)) => all.extend(v) }
    }
    for r in all { match r {
        ServerSessionResult::OutboundResponse(p) => match dec.feed(&p.bytes) { Ok(v) => for x in v { if !x.is_ack() { tr.push(format!("OUT {}", x.kind())); } }, Err(e) => { tr.push(format!("UNDECODABLE {}", e)); return tr } },
        ServerSessionResult::RaisedEvent(e) => { if let Some(id) = sreq_id(&e) { pending.push(id); } tr.push(format!("EV {}", sev(&e))); }
        ServerSessionResult::UnhandleableMessageReceived(p) => tr.push(format!("UNH type={} msid={} ts={} len={} sum={:x}", p.type_id, p.message_stream_id, p.timestamp.value, p.data.len(), sum(&p.data))),
    } }
    tr.push(format!("PENDING {:?}", pending));
    tr
}
fn run_client(chunk_cfg: u32, publish: bool, pieces: &[&[u8]]) -> Vec<String> {
    let mut tr = vec![];
    let mut cfg = ClientSessionConfig::new(); cfg.chunk_size = chunk_cfg;
    let (mut sess, init) = match guard("ClientSession::new", || ClientSession::new(cfg)) { Ok(Ok(x)) => x, Ok(Err(e)) => { tr.push(format!("ERR new: {}", e)); return tr } Err(e) => { tr.push(e); return tr } };
    let mut dec = OutDec::new();
    let absorb = |tr: &mut Vec<String>, dec: &mut OutDec, rs: Vec<ClientSessionResult>, accepted: &mut bool| -> bool {
        for r in rs { match r {
            ClientSessionResult::OutboundResponse(p) => match dec.feed(&p.bytes) { Ok(v) => for x in v { if !x.is_ack() { tr.push(format!("OUT {}", x.kind())); } }, Err(e) => { tr.push(format!("UNDECODABLE {}", e)); return false } },
            ClientSessionResult::RaisedEvent(e) => { if e == ClientSessionEvent::ConnectionRequestAccepted { *accepted = true; } tr.push(format!("EV {}", cev(&e))); }
            ClientSessionResult::UnhandleableMessageReceived(p) => tr.push(format!("UNH type={} msid={} ts={} len={} sum={:x}", p.type_id, p.message_stream_id, p.timestamp.value, p.data.len(), sum(&p.data))),
        } }
        true
    };
    let mut acc = false;
    if !absorb(&mut tr, &mut dec, init, &mut acc) { return tr; }
    match guard("request_connection", || sess.request_connection("live".to_string())) { Ok(Ok(r)) => { if !absorb(&mut tr, &mut dec, vec![r], &mut acc) { return tr; } } Ok(Err(e)) => { tr.push(format!("ERR request_connection: {}", e)); return tr } Err(e) => { tr.push(e); return tr } }
    for p in pieces {
        let rs = match guard("ClientSession::handle_input", || sess.handle_input(p)) { Err(e) => { tr.push(e); return tr } Ok(Err(e)) => { tr.push(format!("ERR {}", e)); return tr } Ok(Ok(v)) => v };
        let mut accepted = false;
        if !absorb(&mut tr, &mut dec, rs, &mut accepted) { return tr; }
        if accepted {
            let r = guard("request_playback/publishing", || if publish { sess.request_publishing("key".to_string(), PublishRequestType::Live) } else { sess.request_playback("key".to_string()) });
            match r { Ok(Ok(r)) => { if !absorb(&mut tr, &mut dec, vec![r], &mut acc) { return tr; } } Ok(Err(e)) => { tr.push(format!("ERR request: {}", e)); return tr } Err(e) => { tr.push(e); return tr } }
        }
    }
    tr
}
fn check_partitions(name: &str, segs: &[Vec<u8>], seed: u64, must_contain: &[&str], run: &dyn Fn(&[&[u8]]) -> Vec<String>) {
    ctx(format!("c15 scenario {}", name));
    eprintln!("running c15 scenario {}", trunc(name, 160));   // if the process dies inside the crate under test, the driver shows the tail of stderr
    let whole: Vec<&[u8]> = segs.iter().map(|x| &x[..]).collect();
    let reference = run(&whole);
    if debug() { eprintln!("--- {} ({} bytes in {} segments)", name, segs.iter().map(|x| x.len()).sum::<usize>(), segs.len()); for t in &reference { eprintln!("    {}", trunc(t, 220)); } }
    if let Some(p) = reference.iter().find(|x| x.starts_with("PANIC")) { witness(format!("[c15] scenario {}: delivery in whole segments: {}", name, p)); }
    let cmp = |what: String, pieces: &[&[u8]]| {
        let got = run(pieces);
        if got != reference {
            let i = (0..std::cmp::max(got.len(), reference.len())).find(|&i| got.get(i) != reference.get(i)).unwrap_or(0);
            witness(format!("[c15] scenario {} ({} bytes, segments of {:?} bytes, the application answers each request right after the call that raised it): delivery {} differs from delivery in whole segments at result #{}: whole segments give {} ; this delivery gives {} (results: {} vs {})",
                name, segs.iter().map(|x| x.len()).sum::<usize>(), segs.iter().map(|x| x.len()).collect::<Vec<_>>(), what, i,
                trunc(reference.get(i).map(|x| x.as_str()).unwrap_or("<nothing more>"), 400), trunc(got.get(i).map(|x| x.as_str()).unwrap_or("<nothing more>"), 400), reference.len(), got.len()));
        }
    };
    // the scenario must not be vacuous on the tree under test: the whole-segment delivery must show what it was written for.
    // (not a C15 matter if it does not: then the comparison below is still done, only the guard is reported on stderr)
    for m in must_contain { if !reference.iter().any(|x| x.contains(m)) && debug() { eprintln!("note: scenario {} never shows {:?}", name, m); } }
    let all: Vec<u8> = segs.iter().flat_map(|x| x.iter().cloned()).collect();
    cmp("byte by byte".into(), &all.chunks(1).collect::<Vec<_>>());
    cmp("in 7-byte pieces".into(), &all.chunks(7).collect::<Vec<_>>());
    for (si, seg) in segs.iter().enumerate() {
        let step = std::cmp::max(1, seg.len() / 150);
        let mut ks: Vec<usize> = vec![0, seg.len()];
        let mut k = (seed as usize) % step; while k <= seg.len() { ks.push(k); k += step; }
        if seg.len() <= 1200 { ks = (0..=seg.len()).collect(); }
        for k in ks {
            let mut pieces: Vec<&[u8]> = segs[..si].iter().map(|x| &x[..]).collect();
            pieces.push(&seg[..k]); pieces.push(&seg[k..]);
            pieces.extend(segs[si + 1..].iter().map(|x| &x[..]));
            cmp(format!("with segment {} split at offset {}", si, k), &pieces);
        }
    }
    let mut rng = Rng(seed ^ 0xC15 ^ (name.len() as u64) << 20);
    for round in 0..12 {
        let mut pieces: Vec<&[u8]> = vec![]; let mut desc = vec![];
        for seg in segs { let mut i = 0; while i < seg.len() { let n = std::cmp::min(seg.len() - i, rng.pick(&[1usize, 2, 3, 5, 11, 12, 13, 64, 127, 128, 129, 1000, 0])); pieces.push(&seg[i..i + n]); desc.push(n); i += n; } }
        cmp(format!("in pseudo-random pieces (round {}, sizes {:?})", round, &desc[..std::cmp::min(desc.len(), 40)]), &pieces);
    }
}
fn media_run(p: &mut Peer, msid: u32, seg: &mut Vec<u8>) {
    let mut t = 0u32;
    for (i, &n) in [0usize, 1, 200, 5000, 1, 0, 200].iter().enumerate() {
        seg.extend(p.audio(msid, t, payload(n, i as u8))); t += 23;
        seg.extend(p.video(msid, t, payload(n, 100 + i as u8))); t += 17;
    }
}
fn mode_c15(seed: u64) {
    // d/ messages FOLLOWING a request in the same call (an application that answers only after all input was delivered): a ping, an
    // unknown command, an acknowledgement and a createStream behind connect / behind publish - none of them may wait for another call
    {
        let mut p = Peer::new();
        let mut s1 = p.cmd("connect", 1.0, connect_obj("live", false), &[], 0);
        s1.extend(p.ping(77)); s1.extend(p.cmd("releaseStream", 2.0, A::Null, &[s("k")], 0)); s1.extend(p.ack(5)); s1.extend(p.cmd("createStream", 3.0, A::Null, &[], 0));
        let mut s2 = p.cmd("publish", 0.0, A::Null, &[s("k"), s("live")], 1);
        s2.extend(p.ping(78)); s2.extend(p.cmd("FCPublish", 4.0, A::Null, &[s("k")], 0)); s2.extend(p.audio(1, 5, payload(40, 3))); s2.extend(p.cmd("play", 0.0, A::Null, &[s("k2")], 1)); s2.extend(p.ping(79));
        check_partitions("d/server messages behind a request in the same call, application answers after all input was delivered", &[s1.clone(), s2], seed, &["ConnectionRequested", "ping"], &|pc| run_server_deferred(4096, pc));
        // ... and the same when the request and what follows it are the LAST thing delivered (no later call picks anything up)
        check_partitions("d'/server connect, ping, unknown command, acknowledgement, createStream as the only input, application answers afterwards", &[s1], seed, &["ConnectionRequested", "ping"], &|pc| run_server_deferred(4096, pc));
        let mut q = Peer::new();
        let mut s3 = q.ping(1); s3.extend(q.cmd("connect", 1.0, connect_obj("live", false), &[], 0)); s3.extend(q.cmd("connect", 2.0, connect_obj("other", false), &[], 0)); s3.extend(q.ping(2));
        check_partitions("d''/server ping, two connect requests, ping as the only input, application answers afterwards", &[s3], seed, &["ConnectionRequested"], &|pc| run_server_deferred(4096, pc));
    }

    // (a) SetChunkSize(n) followed by a message longer than the old chunk size
    for &n in &[129u32, 4096] {
        for &with_ack in &[false, true] {
            let mut p = Peer::new(); let mut seg = vec![];
            if with_ack { seg.extend(p.wack(100)); }
            seg.extend(p.scs(n));
            let c = cmd_body("connect", 1.0, connect_obj("live", true), &[]);
            if c.len() <= 129 { witness("internal: connect body too short".into()); }
            seg.extend(p.raw(20, 0, 0, c));
            let seg2 = { let mut v = p.cmd("createStream", 2.0, A::Null, &[], 0); v.extend(p.ping(77)); v };
            check_partitions(&format!("a/server SetChunkSize({}) then a {}-byte connect{}", n, seg.len(), if with_ack { " after WindowAcknowledgement(100)" } else { "" }), &[seg, seg2], seed, &["ConnectionRequested", "Cmd(_result"], &|pc| run_server(4096, pc));
        }
        // the same on the client: SetChunkSize(n) then a long connect result
        let mut p = Peer::new(); let mut seg = vec![];
        seg.extend(p.scs(n));
        seg.extend(p.cmd("_result", 1.0, o(&[("fmsVer", s("FMS/3,0,1,123")), ("capabilities", A::N(31.0)), ("pad", s(&"x".repeat(150)))]), &[status("NetConnection.Connect.Success")], 0));
        let seg2 = p.cmd("_result", 2.0, A::Null, &[A::N(1.0)], 0);
        check_partitions(&format!("a/client SetChunkSize({}) then a long connect result", n), &[seg, seg2], seed, &["ConnectionRequestAccepted", "Cmd(play"], &|pc| run_client(4096, false, pc));
    }
    // (b) full server-side publish scenario, auto-accept
    for (vi, &(peer_cs, with_ack, cfg_cs)) in [(0u32, false, 4096u32), (4096, true, 4096), (129, false, 128), (50, true, 60)].iter().enumerate() {
        let mut p = Peer::new();
        let mut s1 = vec![];
        if with_ack { s1.extend(p.wack(300)); }
        if peer_cs != 0 { s1.extend(p.scs(peer_cs)); }
        s1.extend(p.cmd("connect", 1.0, connect_obj("live", true), &[], 0));
        let mut s2 = p.cmd("createStream", 2.0, A::Null, &[], 0);
        s2.extend(p.cmd("releaseStream", 3.0, A::Null, &[s("key")], 0));
        s2.extend(p.cmd("publish", 4.0, A::Null, &[s("key"), s("live")], 1));
        let mut s3 = p.data(&[s("@setDataFrame"), s("onMetaData"), meta_obj()], 0, 1);
        media_run(&mut p, 1, &mut s3);
        s3.extend(p.ping(0x01020304));
        s3.extend(p.spb_t(500_000, vi as u8 % 3)); s3.extend(p.abort(9)); s3.extend(p.uc(3, &[1, 3000]));   // messages a server has nothing to do for
        s3.extend(p.audio(1, 600, payload(40, 7)));
        s3.extend(p.audio(2, 5, payload(10, 1)));          // not a publishing stream: ignored
        s3.extend(p.ack(1234));
        s3.extend(p.raw(0x55, 9, 0, payload(33, 3)));      // unknown type: reported as unhandleable
        s3.extend(p.cmd("deleteStream", 0.0, A::Null, &[A::N(1.0)], 0));
        s3.extend(p.video(1, 900, payload(10, 2)));        // after deleteStream: ignored
        s3.extend(p.cmd("createStream", 5.0, A::Null, &[], 0));
        s3.extend(p.cmd("play", 6.0, A::Null, &[s("other"), A::N(-2.0), A::N(-1.0), A::B(true)], 2));
        let mut s4 = p.cmd("closeStream", 0.0, A::Null, &[A::N(2.0)], 2);
        s4.extend(p.ping(5));
        check_partitions(&format!("b/server variant {} connect, createStream, publish, metadata + media 0/1/200/5000, deleteStream, play, closeStream (peer chunk size {}, session chunk size {}{})", vi, if peer_cs == 0 { 128 } else { peer_cs }, cfg_cs, if with_ack { ", acknowledgement window 300" } else { "" }),
            &[s1, s2, s3, s4], seed, &["PublishStreamRequested", "StreamMetadataChanged", "VideoDataReceived", "PublishStreamFinished", "PlayStreamRequested", "PlayStreamFinished", "PingResponse"], &|pc| run_server(cfg_cs, pc));
    }
    // (b') the media part from a foreign encoder: 2- and 3-byte chunk stream ids, all header formats, extended timestamps
    {
        let mut p = Peer::new();
        let s1 = p.cmd("connect", 1.0, connect_obj("live", false), &[], 0);
        let mut s2 = p.cmd("createStream", 2.0, A::Null, &[], 0);
        s2.extend(p.cmd("publish", 3.0, A::Null, &[s("key"), s("live")], 1));
        let mut s3 = vec![];
        let d200 = payload(200, 9); let d300 = payload(300, 8);
        s3.extend(ref_message(128, 0, 64, 2, 0x1000005, 9, 1, &d200));     // format 0, extended absolute timestamp, 2 chunks
        s3.extend(ref_message(128, 1, 64, 2, 0xFFFFFF, 9, 1, &d300));      // format 1, delta exactly 0xFFFFFF (extended), 3 chunks
        s3.extend(ref_message(128, 2, 64, 2, 40, 9, 1, &d300));            // format 2
        s3.extend(ref_message(128, 3, 64, 2, 40, 9, 1, &d300));            // format 3 starting a new message
        s3.extend(ref_message(128, 0, 320, 3, 0xFFFFFE, 8, 1, &payload(1, 1)));
        s3.extend(ref_message(128, 2, 320, 3, 1, 8, 1, &payload(1, 2)));
        s3.extend(ref_message(128, 0, 65599, 3, 7, 8, 1, &[]));
        s3.extend(ref_message(128, 0, 2, 1, 0, 1, 0, &300u32.to_be_bytes()));   // SetChunkSize(300) from the foreign encoder
        s3.extend(ref_message(300, 1, 64, 2, 5, 9, 1, &d300));             // one 300-byte chunk
        check_partitions("b'/server media from a foreign encoder (csid 64/320/65599, formats 0-3, extended timestamps, SetChunkSize(300))", &[s1, s2, s3], seed, &["VideoDataReceived", "AudioDataReceived"], &|pc| run_server(4096, pc));
    }
    // (c) client side: play and publish
    for (vi, &(peer_cs, with_ack, publish)) in [(4096u32, true, false), (0, false, false), (129, true, true), (60, false, false)].iter().enumerate() {
        let mut p = Peer::new();
        let mut s1 = vec![];
        if with_ack { s1.extend(p.wack(300)); }
        s1.extend(p.spb(2_500_000));
        s1.extend(p.uc(0, &[0]));
        if peer_cs != 0 { s1.extend(p.scs(peer_cs)); }
        s1.extend(p.cmd("_result", 1.0, o(&[("fmsVer", s("FMS/3,0,1,123")), ("capabilities", A::N(31.0))]), &[o(&[("level", s("status")), ("code", s("NetConnection.Connect.Success")), ("description", s("Connection succeeded.")), ("objectEncoding", A::N(0.0))])], 0));
        let mut s2 = p.cmd("onBWDone", 0.0, A::Null, &[A::N(8192.0)], 0);
        s2.extend(p.cmd("_result", 2.0, A::Null, &[A::N(1.0)], 0));
        if publish {
            s2.extend(p.uc(0, &[1]));
            s2.extend(p.cmd("onStatus", 0.0, A::Null, &[status("NetStream.Publish.Start")], 1));
            s2.extend(p.ping(0xFFFFFFFF)); s2.extend(p.ack(5000)); s2.extend(p.raw(0x55, 9, 0, payload(150, 3)));
            s2.extend(p.cmd("_result", 9.0, A::Null, &[A::N(3.0)], 0));       // unknown transaction
        } else {
            s2.extend(p.video(1, 0, payload(20, 1)));                            // media before Play.Start (play requested)
            s2.extend(p.cmd("onStatus", 0.0, A::Null, &[status("NetStream.Play.Reset")], 1));
            s2.extend(p.uc(0, &[1]));
            s2.extend(p.cmd("onStatus", 0.0, A::Null, &[status("NetStream.Play.Start")], 1));
            s2.extend(p.data(&[s("|RtmpSampleAccess"), A::B(false), A::B(false)], 0, 1));
            s2.extend(p.data(&[s("onMetaData"), meta_obj()], 0, 1));
            media_run(&mut p, 1, &mut s2);
            s2.extend(p.audio(2, 7, payload(10, 1)));                            // not the active stream: ignored
            s2.extend(p.data(&[s("onMetaData"), meta_obj()], 0, 2));
            s2.extend(p.ping(0x01020304)); s2.extend(p.ack(5000)); s2.extend(p.uc(1, &[1])); s2.extend(p.abort(4)); s2.extend(p.spb_t(1000, 0)); s2.extend(p.video(1, 700, payload(9, 9)));
            s2.extend(p.cmd("_error", 9.0, A::Null, &[A::N(3.0)], 0));        // unknown transaction
        }
        check_partitions(&format!("c/client variant {} connect result, createStream result, {} (peer chunk size {}{})", vi, if publish { "Publish.Start, ping, ack" } else { "Play.Start, metadata, media 0/1/200/5000, ping" }, if peer_cs == 0 { 128 } else { peer_cs }, if with_ack { ", acknowledgement window 300" } else { "" }),
            &[s1, s2], seed, if publish { &["ConnectionRequestAccepted", "PublishRequestAccepted", "PingResponse"] } else { &["ConnectionRequestAccepted", "PlaybackRequestAccepted", "StreamMetadataReceived", "VideoDataReceived", "PingResponse"] }, &|pc| run_client(if vi == 3 { 64 } else { 4096 }, publish, pc));
    }
    if strict() {
        let mut p = Peer::new();
        let mut s1 = p.cmd("connect", 1.0, connect_obj("live", false), &[], 0);
        s1.extend(p.cmd("createStream", 2.0, A::Null, &[], 0));
        s1.extend(p.cmd("publish", 3.0, A::Null, &[s("key"), s("live")], 1));
        s1.extend(p.audio(1, 0, payload(10, 1)));
        check_partitions("[strict] connect + createStream + publish + audio pipelined in one segment", &[s1], seed, &[], &|pc| run_server(4096, pc));
    }
    // pseudo-random valid server streams (seeded): one publishing stream, random harmless traffic around it
    let mut rng = Rng(seed.wrapping_mul(0x9E3779B97F4A7C15) ^ 0x15);
    for round in 0..6 {
        let mut p = Peer::new();
        let mut s1 = vec![];
        if rng.below(2) == 0 { s1.extend(p.wack(rng.pick(&[1u32, 50, 1000]))); }
        let cs = rng.pick(&[0u32, 1, 17, 128, 129, 1000]);
        if cs != 0 { s1.extend(p.scs(cs)); }
        s1.extend(p.cmd("connect", 1.0, connect_obj("app/", rng.below(2) == 0), &[], 0));
        let mut s2 = p.cmd("createStream", 2.0, A::Null, &[], 0);
        s2.extend(p.cmd("publish", 3.0, A::Null, &[s("k"), s(rng.pick(&["live", "record", "append"]))], 1));
        let mut s3 = vec![]; let mut t = rng.pick(&[0u32, 0xFFFFF0, 0xFFFFFFF0]);
        for k in 0..12 {
            let n = rng.pick(&[0usize, 1, 2, 127, 128, 129, 300]);
            t = t.wrapping_add(rng.pick(&[0u32, 1, 15, 16, 0xFFFFFF]));
            match rng.below(11) {
                8 => s3.extend(p.abort(rng.below(7) as u32)), 9 => { let lt = rng.below(3) as u8; s3.extend(p.spb_t(rng.next() as u32, lt)) } 10 => s3.extend(p.ack(rng.next() as u32)),
                0 | 1 => s3.extend(p.audio(1, t, payload(n, k))), 2 | 3 => s3.extend(p.video(1, t, payload(n, k))),
                4 => s3.extend(p.ping(t)), 5 => s3.extend(p.data(&[s("@setDataFrame"), s("onMetaData"), meta_obj()], t, 1)),
                6 => { let c = rng.pick(&[1u32, 64, 128, 200]); s3.extend(p.scs(c)); }
                _ => s3.extend(p.cmd("whatever", 7.0, A::Null, &[s("x")], 1)),
            }
        }
        s3.extend(p.cmd("deleteStream", 0.0, A::Null, &[A::N(1.0)], 0));
        check_partitions(&format!("r/server pseudo-random publish session #{} (seed {})", round, seed), &[s1, s2, s3], seed, &["PublishStreamRequested", "PublishStreamFinished"], &|pc| run_server(4096, pc));
    }
}

// ================================================================ C17: acknowledgement accounting, both session kinds
enum Either { S(ServerSession), C(ClientSession) }
impl Either {
    fn input(&mut self, b: &[u8]) -> Result<Vec<Packet>, String> {
        match self {
            Either::S(x) => match guard("ServerSession::handle_input", || x.handle_input(b))? { Ok(v) => Ok(v.into_iter().filter_map(|r| if let ServerSessionResult::OutboundResponse(p) = r { Some(p) } else { None }).collect()), Err(e) => Err(format!("handle_input returned Err: {}", e)) },
            Either::C(x) => match guard("ClientSession::handle_input", || x.handle_input(b))? { Ok(v) => Ok(v.into_iter().filter_map(|r| if let ClientSessionResult::OutboundResponse(p) = r { Some(p) } else { None }).collect()), Err(e) => Err(format!("handle_input returned Err: {}", e)) },
        }
    }
}
#[derive(Clone, Debug)]
enum Item { Announce(u32), PadExact(usize), PadAbout(usize, bool), Bandwidth(u32, u8) }   // PadAbout(n, with ping requests); Bandwidth = SetPeerBandwidth(size, limit type), 17 bytes, NOT a window announcement
// exact-size harmless traffic: unknown-type messages with full (format 0) headers: 12 + payload bytes each, payload <= 128
fn pad_exact(p: &mut Peer, mut n: usize, out: &mut Vec<u8>, k: &mut u8) {
    while n > 0 {
        if n < 12 { witness(format!("internal: exact padding of {} bytes impossible", n)); }
        let t = if n <= 140 { n } else { std::cmp::min(140, n - 12) };
        *k = k.wrapping_add(1);
        let b = p.raw_f(0x55, 0, 0, payload(t - 12, *k), true);
        if b.len() != t { witness(format!("internal: padding message of {} bytes came out as {}", t, b.len())); }
        out.extend(b); n -= t;
    }
}
fn pad_about(p: &mut Peer, n: usize, pings: bool, rng: &mut Rng, out: &mut Vec<u8>, k: &mut u8) {
    let start = out.len();
    while out.len() - start < n {
        *k = k.wrapping_add(1);
        match rng.below(if pings { 7 } else { 6 }) {
            4 => { let lt = rng.below(3) as u8; out.extend(p.spb_t(rng.pick(&[1u32, 2, 7, 50, 2_500_000]), lt)) }   // a bandwidth limit is not an acknowledgement window
            5 => match rng.below(4) { 0 => out.extend(p.uc(0, &[1])), 1 => out.extend(p.uc(1, &[1])), 2 => out.extend(p.uc(3, &[1, 2000])), _ => out.extend(p.uc(7, &[5])) },
            0 => out.extend(p.ack(rng.next() as u32)),
            1 => out.extend(p.raw(0x55, *k as u32, 0, payload(rng.pick(&[0usize, 1, 30, 127, 128, 129, 300]), *k))),
            2 => out.extend(p.raw(0x56, 0, 1, payload(rng.pick(&[5usize, 64]), *k))),
            3 => out.extend(p.raw(2, 0, 0, vec![0, 0, 0, 9])),           // Abort: ignored / unhandleable
            _ => out.extend(p.ping(rng.next() as u32)),
        }
    }
}
fn c17_run(kind: &str, warm: bool, items: &[Item], calls: &[usize], tail: usize, rng: &mut Rng) {
    let desc = format!("{} session{}, peer stream {:?}, call sizes {:?}{}", kind, if warm { " (after a connect exchange)" } else { "" }, items, &calls[..std::cmp::min(calls.len(), 60)], if calls.len() > 60 { format!(" ... ({} calls)", calls.len()) } else { String::new() });
    ctx(format!("c17 {}", desc));
    let mut dec = OutDec::new();
    let mut p = Peer::new();
    let mut sess = if kind == "server" {
        let (mut x, init) = match ServerSession::new(ServerSessionConfig::new()) { Ok(v) => v, Err(e) => witness(format!("[c17] ServerSession::new failed: {}", e)) };
        for r in init { if let ServerSessionResult::OutboundResponse(pk) = r { let _ = dec.feed(&pk.bytes); } }
        if warm {
            let rs = x.handle_input(&p.cmd("connect", 1.0, connect_obj("live", false), &[], 0)).unwrap_or_default();
            for r in rs { if let ServerSessionResult::RaisedEvent(e) = r { if let Some(id) = sreq_id(&e) { for r2 in x.accept_request(id).unwrap_or_default() { if let ServerSessionResult::OutboundResponse(pk) = r2 { let _ = dec.feed(&pk.bytes); } } } } }
        }
        Either::S(x)
    } else {
        let (mut x, _) = match ClientSession::new(ClientSessionConfig::new()) { Ok(v) => v, Err(e) => witness(format!("[c17] ClientSession::new failed: {}", e)) };
        if warm {
            if let Ok(ClientSessionResult::OutboundResponse(pk)) = x.request_connection("live".to_string()) { let _ = dec.feed(&pk.bytes); }
            for r in x.handle_input(&p.cmd("_result", 1.0, A::Null, &[], 0)).unwrap_or_default() { if let ClientSessionResult::OutboundResponse(pk) = r { let _ = dec.feed(&pk.bytes); } }
        }
        Either::C(x)
    };
    // lay out the peer stream; remember where each announcement ends
    let mut stream = vec![]; let mut ann: Vec<(usize, u32)> = vec![]; let mut k = 0u8;
    for it in items { match it {
        Item::Announce(w) => { stream.extend(p.wack(*w)); ann.push((stream.len(), *w)); }
        Item::PadExact(n) => pad_exact(&mut p, *n, &mut stream, &mut k),
        Item::Bandwidth(n, lt) => stream.extend(p.spb_t(*n, *lt)),
        Item::PadAbout(n, pings) => pad_about(&mut p, *n, *pings, rng, &mut stream, &mut k),
    } }
    let need: usize = calls.iter().sum::<usize>() + tail;
    if stream.len() < need { let n = need - stream.len() + 1; pad_about(&mut p, n, true, rng, &mut stream, &mut k); }
    // reference counter, from the statement
    let (mut window, mut c, mut pos): (Option<u64>, u64, usize) = (None, 0, 0);
    let (mut acked, mut counted): (u64, u64) = (0, 0);
    for (ci, &n) in calls.iter().enumerate() {
        let end = pos + n;
        let got_packets = match sess.input(&stream[pos..end]) { Ok(v) => v, Err(e) => witness(format!("[c17] {}: call #{} ({} bytes at offset {}): {}", desc, ci, n, pos, e)) };
        let mut got = vec![];
        for pk in got_packets { match dec.feed(&pk.bytes) { Ok(v) => for m in v { if let RtmpMessage::Acknowledgement { sequence_number } = m.msg { got.push(sequence_number as u64); } }, Err(e) => witness(format!("[c17] {}: call #{}: {}", desc, ci, e)) } }
        let mut expect = vec![];
        let (w_at_start, before) = (window, c);
        if let Some(w) = window { c += n as u64; counted += n as u64; if c >= w { expect.push(c); acked += c; c = 0; } }
        if got != expect {
            witness(format!("[c17] {}: call #{} ({} bytes at stream offset {}; window in force {:?}; {} bytes outstanding before the call): Acknowledgement messages returned by this call {:?}, the statement requires {:?}", desc, ci, n, pos, w_at_start, before, got, expect));
        }
        for &(e, w) in &ann { if e > pos && e <= end { window = Some(w as u64); } }
        pos = end;
    }
    if strict() { if let Some(&(first_end, _)) = ann.first() { let after = pos.saturating_sub(first_end) as u64; if pos > first_end && acked + c != after {
        witness(format!("[c17] [strict] {}: {} bytes were received after the window announcement ended (stream offset {}), but only {} were acknowledged and {} are outstanding: the bytes that followed the announcement in the same input call are never counted", desc, after, first_end, acked, c)); } } }
    if acked + c != counted { witness(format!("[c17] {}: conservation broken: acknowledged {} + outstanding {} != received {}", desc, acked, c, counted)); }
}
fn mode_c17(seed: u64) {
    let mut rng = Rng(seed ^ 0xC17C17);
    const A: usize = 16;    // a WindowAcknowledgement message on the wire: 12 header bytes + 4
    for kind in ["server", "client"] {
        // a SetPeerBandwidth message (any limit type, smaller or larger than the window) is ordinary traffic: it is counted and changes nothing
        for lt in 0..3u8 { for &bw in &[10u32, 1, 1000] {
            let items = vec![Item::Announce(100), Item::PadExact(30), Item::Bandwidth(bw, lt), Item::PadAbout(1, false)];
            for calls in [vec![A, 30, 17, 1, 1, 50, 1, 1, 100, 99, 1], vec![A, 30, 17, 53, 100], vec![A + 30 + 17, 99, 1, 10, 10, 80]] { c17_run(kind, false, &items, &calls, 0, &mut rng); }
        } }
        let mut windows: Vec<u32> = (1..=20).collect(); windows.extend_from_slice(&[100, 127, 128, 129, 1000, 4096, 5000, 65535, 65536, 1_000_000]);
        for &w in &windows {
            let wz = w as usize;
            for warm in [false, true] {
                let base = vec![Item::Announce(w), Item::PadAbout(1, true)];
                let mut pats: Vec<Vec<usize>> = vec![
                    vec![A, wz, wz, wz],
                    vec![A, wz + 1, wz + 1, wz.saturating_sub(1), 1, 1],
                    vec![A, 2 * wz + 5, 0, 0, wz / 2, wz - wz / 2, 0, wz / 2, wz - wz / 2 - if wz > 1 { 1 } else { 0 }, 1],
                    vec![7, A - 7, wz, wz],                  // announcement split over two calls
                    vec![A + 5, wz.saturating_sub(1), 1, wz],   // announcement and 5 more bytes in one call: counting starts with the next call
                    vec![A + 3 * wz + 1, wz],
                ];
                if w <= 5000 { pats.push(vec![1; A + 2 * wz + 3]); }   // byte by byte, announcement included
                if w >= 2 { pats.push(vec![A, wz - 1, 1, wz - 1, 1, wz - 1, 2, wz - 2]); }
                if w == 100 { pats.push(vec![A, 40, 60, 40, 60, 99, 1, 100, 101, 1, 98, 1]); pats.push(vec![A, 40, 59, 1, 0, 100]); }
                let mut r = vec![A]; for _ in 0..40 { r.push(rng.pick(&[0usize, 1, 2, 3, 7, wz / 2, wz.saturating_sub(1), wz, wz + 1, 2 * wz, 3 * wz + 1])); } pats.push(r);
                let mut r = vec![]; for _ in 0..60 { r.push(rng.pick(&[0usize, 1, 5, 11, 16, 17, wz / 3 + 1, wz, wz + 2])); } pats.push(r);
                for calls in &pats { c17_run(kind, warm, &base, calls, 0, &mut rng); }
            }
            // window re-announcements mid-stream: same, larger, smaller than what is outstanding
            if w >= 100 && w <= 5000 {
                let half = wz / 2 + 10;    // >= 12
                for &w2 in &[w, 3 * w, w / 10, 1, (half + A) as u32, (half + A + 1) as u32] {
                    let w2z = w2 as usize;
                    let items = vec![Item::Announce(w), Item::PadExact(half), Item::Announce(w2), Item::PadAbout(1, false)];
                    // announcement alone, `half` bytes, the re-announcement alone, then calls around both thresholds
                    let rest = wz - half - A;   // bytes still missing to the OLD window after the re-announcement
                    for tail in [vec![0usize, 1, rest.saturating_sub(1), 1, 1, w2z, w2z, 1], vec![rest, w2z.saturating_sub(1), 1, w2z + 1], vec![1; rest + w2z + 2], vec![3 * wz + 3 * w2z, 0, w2z]] {
                        let mut calls = vec![A, half, A]; calls.extend(tail);
                        c17_run(kind, false, &items, &calls, 0, &mut rng);
                    }
                    // the same stream in pseudo-random calls (the re-announcement lands wherever it lands)
                    for _ in 0..4 { let mut calls = vec![]; for _ in 0..50 { calls.push(rng.pick(&[0usize, 1, 7, 16, half / 2, half, wz / 3, w2z / 2 + 1, w2z, wz])); } c17_run(kind, true, &items, &calls, 0, &mut rng); }
                }
            }
        }
        // several re-announcements in one stream
        let items = vec![Item::Announce(1000), Item::PadAbout(700, true), Item::Announce(1000), Item::PadAbout(900, false), Item::Announce(5000), Item::PadAbout(3000, true), Item::Announce(100), Item::PadAbout(600, true), Item::Announce(3), Item::PadAbout(50, false)];
        for _ in 0..10 { let mut calls = vec![]; for _ in 0..120 { calls.push(rng.pick(&[0usize, 1, 2, 3, 16, 50, 99, 100, 101, 333, 1000])); } c17_run(kind, false, &items, &calls, 0, &mut rng); }
    }
}

// ================================================================ C18: everything the sessions emit stays decodable
struct Rec { bytes: Vec<u8>, can_drop: bool, origin: String, allowed: Vec<u32>, media: Option<(u8, u32, u32, Vec<u8>)>, req_drop: bool }
fn well_formed(m: &Msg) -> Result<(), String> {
    let p = MessagePayload { timestamp: RtmpTimestamp::new(m.ts), type_id: m.ty, message_stream_id: m.msid, data: Bytes::from(m.data.clone()) };
    match guard("to_rtmp_message", || p.to_rtmp_message())? { Ok(_) => Ok(()), Err(e) => Err(format!("{}", e)) }
}
fn c18_check(label: &str, recs: &[Rec], streams: &[u32], rng: &mut Rng) {
    ctx(format!("c18 checking {}", label));
    let hist = || recs.iter().enumerate().map(|(i, r)| format!("#{}:{}{}", i, r.origin, if r.can_drop { "[droppable]" } else { "" })).collect::<Vec<_>>().join(", ");
    for (i, r) in recs.iter().enumerate() {
        if r.bytes.is_empty() { witness(format!("[c18] {}: packet #{} ({}) is empty; history: {}", label, i, r.origin, hist())); }
        if r.can_drop != r.req_drop { witness(format!("[c18] {}: packet #{} ({}) has can_be_dropped = {} but the application asked for {}; history: {}", label, i, r.origin, r.can_drop, r.req_drop, hist())); }
    }
    // (1) one reference decoder over the packets in order: every packet is exactly one message
    let mut rd = RefDecoder::new(); let mut full: Vec<Msg> = vec![];
    for (i, r) in recs.iter().enumerate() {
        match rd.decode_all(&r.bytes) {
            Ok(v) if v.len() == 1 => full.push(v.into_iter().next().unwrap()),
            Ok(v) => witness(format!("[c18] {}: packet #{} ({}) decodes to {} messages instead of one (reference decoder, RTMP 5.3.1); history: {}", label, i, r.origin, v.len(), hist())),
            Err(e) => witness(format!("[c18] {}: packet #{} ({}) is not decodable by a conformant peer that received every earlier packet: {} ; history: {}", label, i, r.origin, e, hist())),
        }
    }
    let all: Vec<u8> = recs.iter().flat_map(|r| r.bytes.iter().cloned()).collect();
    match RefDecoder::new().decode_all(&all) { Ok(v) if v == full => (), Ok(v) => witness(format!("[c18] {}: the concatenation decodes to {} messages, packet by packet to {}; history: {}", label, v.len(), full.len(), hist())), Err(e) => witness(format!("[c18] {}: concatenation not decodable: {}; history: {}", label, e, hist())) }
    for (i, (r, m)) in recs.iter().zip(full.iter()).enumerate() {
        if let Err(e) = well_formed(m) { witness(format!("[c18] {}: packet #{} ({}) carries a malformed message of type {}: {}; history: {}", label, i, r.origin, m.ty, e, hist())); }
        let ok = match m.ty {
            1 | 2 | 3 | 5 | 6 => m.msid == 0,
            4 => m.msid == 0 || streams.contains(&m.msid),     // RTMP 6.2: user control SHOULD use message stream 0; the sessions use the stream concerned: tolerated
            _ => match &r.media { Some((ty, msid, ts, data)) => m.ty == *ty && m.msid == *msid && m.ts == *ts && &m.data == data, None => r.allowed.contains(&m.msid) },
        };
        if !ok {
            witness(format!("[c18] {}: packet #{} ({}) decodes to type {} on message stream {} timestamp {} length {}, expected {}; history: {}", label, i, r.origin, m.ty, m.msid, m.ts, m.data.len(),
                match &r.media { Some((ty, msid, ts, d)) => format!("type {} on message stream {} timestamp {} with the {} bytes the application sent", ty, msid, ts, d.len()), None => format!("a message stream in {:?}", if m.ty <= 6 { vec![0u32] } else { r.allowed.clone() }) }, hist()));
        }
        if r.media.is_none() && r.can_drop { witness(format!("[c18] {}: packet #{} ({}) is marked droppable but is not media", label, i, r.origin)); }
    }
    // (2) drop subsets
    let di: Vec<usize> = recs.iter().enumerate().filter(|(_, r)| r.can_drop).map(|(i, _)| i).collect();
    let d = di.len();
    if d > 60 { witness(format!("internal: {} droppable packets in {}", d, label)); }
    let mut masks: Vec<u64> = vec![];
    if d <= 10 { masks.extend(0..(1u64 << d)); }
    else {
        for i in 0..d { masks.push(1 << i); for j in i + 1..d { masks.push(1 << i | 1 << j); } }
        for st in 0..=d - 6 { for m in 0..64u64 { masks.push(m << st); } }
        for _ in 0..300 { let mut m = 0u64; for _ in 0..1 + rng.below(6) { m |= 1 << rng.below(d as u64); } masks.push(m); }
        masks.push((1u64 << d) - 1);
    }
    for mask in masks {
        let dropped: Vec<usize> = di.iter().enumerate().filter(|(j, _)| mask >> j & 1 == 1).map(|(_, &i)| i).collect();
        let mut bytes = vec![]; let mut expect = vec![];
        for (i, r) in recs.iter().enumerate() { if dropped.contains(&i) { continue; } bytes.extend_from_slice(&r.bytes); expect.push(full[i].clone()); }
        let got = RefDecoder::new().decode_all(&bytes);
        if got.as_ref().ok() != Some(&expect) {
            let why = match &got { Err(e) => format!("is not decodable: {}", e), Ok(v) => { let i = (0..std::cmp::max(v.len(), expect.len())).find(|&i| v.get(i) != expect.get(i)).unwrap_or(0);
                format!("decodes differently from message {} on: got {:?}, kept message was {:?}", i, v.get(i).map(|m| (m.ts, m.ty, m.msid, m.data.len())), expect.get(i).map(|m| (m.ts, m.ty, m.msid, m.data.len()))) } };
            witness(format!("[c18] {}: with the droppable packets {:?} removed the rest {} ; history: {}", label, dropped, why, hist()));
        }
    }
}
#[derive(Clone, Copy, Debug)]
struct Med { video: bool, which: usize, ts: u32, len: usize, dropp: bool }
fn med(video: bool, which: usize, ts: u32, len: usize, dropp: bool) -> Med { Med { video, which, ts, len, dropp } }
struct S18 { s: ServerSession, p: Peer, dec: OutDec, recs: Vec<Rec>, pending: Vec<u32>, label: String, last_out: Vec<Out> }
impl S18 {
    fn fail(&self, what: &str, e: String) -> ! {
        // if the packets returned so far are already broken, say that (the reference decoder pinpoints it) instead of the follow-up failure
        c18_check(&self.label, &self.recs, &(0..64).collect::<Vec<u32>>(), &mut Rng(1));
        witness(format!("[c18] {}: {} failed: {} ; history so far: {}", self.label, what, e, self.recs.iter().map(|r| r.origin.clone()).collect::<Vec<_>>().join(", ")))
    }
    fn push(&mut self, origin: &str, pk: Packet, allowed: &[u32], media: Option<(u8, u32, u32, Vec<u8>)>, req_drop: bool) {
        let fed = self.dec.feed(&pk.bytes);
        self.recs.push(Rec { bytes: pk.bytes, can_drop: pk.can_be_dropped, origin: origin.to_string(), allowed: allowed.to_vec(), media, req_drop });
        match fed {
            Ok(v) => self.last_out.extend(v),
            // the real deserializer (playing the peer) cannot follow any more: let the reference decoder say exactly where the stream broke
            Err(e) => { self.fail(origin, format!("the crate's own ChunkDeserializer, fed every returned packet in order, fails at this packet: {}", e)) }
        }
    }
    fn take(&mut self, origin: &str, rs: Vec<ServerSessionResult>, allowed: &[u32]) {
        self.last_out.clear();
        for r in rs { match r {
            ServerSessionResult::OutboundResponse(pk) => self.push(origin, pk, allowed, None, false),
            ServerSessionResult::RaisedEvent(e) => if let Some(id) = sreq_id(&e) { self.pending.push(id); },
            _ => (),
        } }
    }
    fn new(cs: u32, label: String) -> S18 {
        ctx(format!("c18 {}", label));
        eprintln!("running c18 {}", trunc(&label, 160));
        let mut cfg = ServerSessionConfig::new(); cfg.chunk_size = cs;
        let (s, init) = match guard("ServerSession::new", || ServerSession::new(cfg)) { Ok(Ok(x)) => x, Ok(Err(e)) => witness(format!("[c18] ServerSession::new(chunk_size {}) failed: {}", cs, e)), Err(e) => witness(format!("[c18] {}", e)) };
        let mut x = S18 { s, p: Peer::new(), dec: OutDec::new(), recs: vec![], pending: vec![], label, last_out: vec![] };
        x.take("constructor", init, &[0]); x
    }
    fn input(&mut self, origin: &str, bytes: Vec<u8>, allowed: &[u32]) {
        match guard("handle_input", || self.s.handle_input(&bytes)) { Ok(Ok(rs)) => self.take(origin, rs, allowed), Ok(Err(e)) => self.fail(origin, format!("{}", e)), Err(e) => self.fail(origin, e) }
    }
    fn accept(&mut self, origin: &str, allowed: &[u32]) {
        let id = match self.pending.pop() { Some(i) => i, None => self.fail(origin, "no request event was raised".into()) };
        match guard("accept_request", || self.s.accept_request(id)) { Ok(Ok(rs)) => self.take(origin, rs, allowed), Ok(Err(e)) => self.fail(origin, format!("{}", e)), Err(e) => self.fail(origin, e) }
    }
    fn reject(&mut self, origin: &str, allowed: &[u32]) {
        let id = match self.pending.pop() { Some(i) => i, None => self.fail(origin, "no request event was raised".into()) };
        match guard("reject_request", || self.s.reject_request(id, "NetStream.Play.Failed", "no")) { Ok(Ok(rs)) => self.take(origin, rs, allowed), Ok(Err(e)) => self.fail(origin, format!("{}", e)), Err(e) => self.fail(origin, e) }
    }
    fn create_stream(&mut self, tx: f64) -> u32 {
        let b = self.p.cmd("createStream", tx, A::Null, &[], 0);
        self.input("createStream result", b, &[0]);
        for o in &self.last_out { if let Some((_, _, args)) = o.cmd("_result") { if let Some(Amf0Value::Number(n)) = args.get(0) { return *n as u32; } } }
        self.fail("createStream", "no _result carrying a stream id came back".into())
    }
    fn media(&mut self, sid: u32, m: Med, salt: u8) {
        let d = payload(m.len, salt);
        let origin = format!("{}(stream {}, ts {}, {} bytes, can_be_dropped {})", if m.video { "send_video_data" } else { "send_audio_data" }, sid, m.ts, m.len, m.dropp);
        let r = guard(&origin, || if m.video { self.s.send_video_data(sid, Bytes::from(d.clone()), RtmpTimestamp::new(m.ts), m.dropp) } else { self.s.send_audio_data(sid, Bytes::from(d.clone()), RtmpTimestamp::new(m.ts), m.dropp) });
        match r { Ok(Ok(pk)) => self.push(&origin, pk, &[sid], Some((if m.video { 9 } else { 8 }, sid, m.ts, d)), m.dropp), Ok(Err(e)) => self.fail(&origin, format!("{}", e)), Err(e) => self.fail(&origin, e) }
    }
    fn pkt<E: std::fmt::Display>(&mut self, origin: &str, r: Result<Result<Packet, E>, String>, allowed: &[u32]) {
        match r { Ok(Ok(pk)) => self.push(origin, pk, allowed, None, false), Ok(Err(e)) => self.fail(origin, format!("{}", e)), Err(e) => self.fail(origin, e) }
    }
}
fn full_metadata() -> StreamMetadata {
    let mut m = StreamMetadata::new();
    m.video_width = Some(1920); m.video_height = Some(1080); m.video_codec_id = Some(7); m.video_frame_rate = Some(30.0); m.video_bitrate_kbps = Some(3000);
    m.audio_codec_id = Some(10); m.audio_bitrate_kbps = Some(128); m.audio_sample_rate = Some(44100); m.audio_channels = Some(2); m.audio_is_stereo = Some(true); m.encoder = Some("enc".to_string());
    m
}
fn c18_server(cs: u32, ack_window: Option<u32>, media: &[Med], name: &str, rng: &mut Rng) {
    let mut x = S18::new(cs, format!("server session (chunk size {}{}), {}", cs, ack_window.map(|w| format!(", peer acknowledgement window {}", w)).unwrap_or_default(), name));
    if let Some(w) = ack_window { let b = x.p.wack(w); x.input("peer WindowAcknowledgement", b, &[0]); }
    let b = x.p.cmd("connect", 1.0, connect_obj("live", true), &[], 0); x.input("connect", b, &[0]);
    x.accept("accept connect", &[0]);
    let a = x.create_stream(2.0);
    let b = x.p.cmd("publish", 3.0, A::Null, &[s("pubkey"), s("live")], a); x.input("publish", b, &[a]);
    x.accept("accept publish", &[a]);
    let p1 = x.create_stream(4.0);
    let b = x.p.cmd("play", 5.0, A::Null, &[s("playkey")], p1); x.input("play", b, &[p1]);
    x.accept("accept play", &[p1]);
    let p2 = x.create_stream(6.0);
    let b = x.p.cmd("play", 7.0, A::Null, &[s("playkey2")], p2); x.input("play", b, &[p2]);
    x.accept("accept play 2", &[p2]);
    let r = guard("send_metadata", || x.s.send_metadata(p1, &full_metadata())); x.pkt("send_metadata", r, &[p1]);
    let sids = [p1, p2];
    for (i, m) in media.iter().enumerate() {
        x.media(sids[m.which % 2], *m, i as u8);
        if i == media.len() / 2 {
            let b = x.p.ping(0xCAFE); x.input("peer ping request", b, &[0]);
            let r = guard("send_ping_request", || x.s.send_ping_request().map(|t| t.0)); x.pkt("send_ping_request", r, &[0]);
            let b = x.p.audio(a, 5, payload(300, 1)); x.input("peer audio on the publishing stream", b, &[]);
        }
    }
    let r = guard("finish_playing", || x.s.finish_playing(p1)); x.pkt("finish_playing", r, &[p1]);
    let b = x.p.cmd("closeStream", 0.0, A::Null, &[A::N(p2 as f64)], p2); x.input("closeStream", b, &[]);
    let b = x.p.cmd("deleteStream", 0.0, A::Null, &[A::N(a as f64)], 0); x.input("deleteStream", b, &[]);
    let p3 = x.create_stream(8.0);
    let b = x.p.cmd("play", 9.0, A::Null, &[s("k3")], p3); x.input("play", b, &[p3]);
    x.reject("reject play", &[p3]);
    let b = x.p.cmd("publish", 10.0, A::Null, &[s("k4"), s("bogus-mode")], p3); x.input("publish with an invalid mode (error response)", b, &[p3]);
    let b = x.p.cmd("play", 11.0, A::Null, &[], p3); x.input("play without arguments (error response)", b, &[p3]);
    x.media(p2, med(true, 1, 77, 10, false), 200);
    let (label, recs) = (x.label.clone(), x.recs);
    c18_check(&label, &recs, &[a, p1, p2, p3], rng);
}
struct C18 { c: ClientSession, p: Peer, dec: OutDec, recs: Vec<Rec>, label: String, last_out: Vec<Out>, events: Vec<String> }
impl C18 {
    fn fail(&self, what: &str, e: String) -> ! {
        // if the packets returned so far are already broken, say that (the reference decoder pinpoints it) instead of the follow-up failure
        c18_check(&self.label, &self.recs, &(0..64).collect::<Vec<u32>>(), &mut Rng(1));
        witness(format!("[c18] {}: {} failed: {} ; history so far: {}", self.label, what, e, self.recs.iter().map(|r| r.origin.clone()).collect::<Vec<_>>().join(", ")))
    }
    fn push(&mut self, origin: &str, pk: Packet, allowed: &[u32], media: Option<(u8, u32, u32, Vec<u8>)>, req_drop: bool) {
        let fed = self.dec.feed(&pk.bytes);
        self.recs.push(Rec { bytes: pk.bytes, can_drop: pk.can_be_dropped, origin: origin.to_string(), allowed: allowed.to_vec(), media, req_drop });
        match fed {
            Ok(v) => self.last_out.extend(v),
            // the real deserializer (playing the peer) cannot follow any more: let the reference decoder say exactly where the stream broke
            Err(e) => { self.fail(origin, format!("the crate's own ChunkDeserializer, fed every returned packet in order, fails at this packet: {}", e)) }
        }
    }
    fn take(&mut self, origin: &str, rs: Vec<ClientSessionResult>, allowed: &[u32]) {
        self.last_out.clear(); self.events.clear();
        for r in rs { match r { ClientSessionResult::OutboundResponse(pk) => self.push(origin, pk, allowed, None, false), ClientSessionResult::RaisedEvent(e) => self.events.push(cev(&e)), _ => () } }
    }
    fn input(&mut self, origin: &str, bytes: Vec<u8>, allowed: &[u32]) {
        match guard("handle_input", || self.c.handle_input(&bytes)) { Ok(Ok(rs)) => self.take(origin, rs, allowed), Ok(Err(e)) => self.fail(origin, format!("{}", e)), Err(e) => self.fail(origin, e) }
    }
    fn one<E: std::fmt::Display>(&mut self, origin: &str, r: Result<Result<ClientSessionResult, E>, String>, allowed: &[u32], media: Option<(u8, u32, u32, Vec<u8>)>, req_drop: bool) {
        match r { Ok(Ok(ClientSessionResult::OutboundResponse(pk))) => { self.last_out.clear(); self.push(origin, pk, allowed, media, req_drop) }, Ok(Ok(_)) => self.fail(origin, "no packet returned".into()), Ok(Err(e)) => self.fail(origin, format!("{}", e)), Err(e) => self.fail(origin, e) }
    }
    fn many<E: std::fmt::Display>(&mut self, origin: &str, r: Result<Result<Vec<ClientSessionResult>, E>, String>, allowed: &[u32]) {
        match r { Ok(Ok(rs)) => self.take(origin, rs, allowed), Ok(Err(e)) => self.fail(origin, format!("{}", e)), Err(e) => self.fail(origin, e) }
    }
    fn last_tx(&self, name: &str) -> f64 { for o in &self.last_out { if let Some((tx, _, _)) = o.cmd(name) { return tx; } } self.fail(name, format!("no {} command was emitted", name)) }
}
fn c18_client(cs: u32, ack_window: Option<u32>, media: &[Med], name: &str, rng: &mut Rng) {
    let label = format!("client session (chunk size {}{}), {}", cs, ack_window.map(|w| format!(", peer acknowledgement window {}", w)).unwrap_or_default(), name);
    ctx(format!("c18 {}", label));
    eprintln!("running c18 {}", trunc(&label, 160));
    let mut cfg = ClientSessionConfig::new(); cfg.chunk_size = cs; cfg.tc_url = Some("rtmp://example.com/live".to_string());
    let (c, init) = match guard("ClientSession::new", || ClientSession::new(cfg)) { Ok(Ok(x)) => x, Ok(Err(e)) => witness(format!("[c18] ClientSession::new(chunk_size {}) failed: {}", cs, e)), Err(e) => witness(format!("[c18] {}", e)) };
    let mut x = C18 { c, p: Peer::new(), dec: OutDec::new(), recs: vec![], label, last_out: vec![], events: vec![] };
    x.take("constructor", init, &[0]);
    let r = guard("request_connection", || x.c.request_connection("live".to_string())); x.one("request_connection", r, &[0], None, false);
    let tx = x.last_tx("connect");
    if let Some(w) = ack_window { let b = x.p.wack(w); x.input("peer WindowAcknowledgement", b, &[0]); }
    let b = x.p.cmd("_result", tx, o(&[("fmsVer", s("FMS/3,0,1,123"))]), &[status("NetConnection.Connect.Success")], 0); x.input("connect result", b, &[0]);
    let r = guard("request_publishing", || x.c.request_publishing("pubkey".to_string(), PublishRequestType::Live)); x.one("request_publishing", r, &[0], None, false);
    let tx = x.last_tx("createStream");
    let sid = 5u32;
    let b = x.p.cmd("_result", tx, A::Null, &[A::N(sid as f64)], 0); x.input("createStream result (publish command)", b, &[sid]);
    let b = x.p.cmd("onStatus", 0.0, A::Null, &[status("NetStream.Publish.Start")], sid); x.input("onStatus Publish.Start", b, &[]);
    if !x.events.iter().any(|e| e.contains("PublishRequestAccepted")) { x.fail("publish workflow", format!("no PublishRequestAccepted event, events {:?}", x.events)); }
    let r = guard("publish_metadata", || x.c.publish_metadata(&full_metadata())); x.one("publish_metadata", r, &[sid], None, false);
    for (i, m) in media.iter().enumerate() {
        let d = payload(m.len, i as u8);
        let origin = format!("{}(ts {}, {} bytes, can_be_dropped {})", if m.video { "publish_video_data" } else { "publish_audio_data" }, m.ts, m.len, m.dropp);
        let r = guard(&origin, || if m.video { x.c.publish_video_data(Bytes::from(d.clone()), RtmpTimestamp::new(m.ts), m.dropp) } else { x.c.publish_audio_data(Bytes::from(d.clone()), RtmpTimestamp::new(m.ts), m.dropp) });
        x.one(&origin, r, &[sid], Some((if m.video { 9 } else { 8 }, sid, m.ts, d)), m.dropp);
        if i == media.len() / 2 {
            let b = x.p.ping(0xBEEF); x.input("peer ping request", b, &[0]);
            let r = guard("send_ping_request", || x.c.send_ping_request().map(|t| ClientSessionResult::OutboundResponse(t.0))); x.one("send_ping_request", r, &[0], None, false);
            let b = x.p.raw(0x55, 0, 0, payload(400, 1)); x.input("peer padding", b, &[]);
        }
    }
    let r = guard("stop_publishing", || x.c.stop_publishing()); x.many("stop_publishing (deleteStream)", r, &[sid, 0]);
    let r = guard("request_playback", || x.c.request_playback("playkey".to_string())); x.one("request_playback", r, &[0], None, false);
    let tx = x.last_tx("createStream");
    let sid2 = 9u32;
    let b = x.p.cmd("_result", tx, A::Null, &[A::N(sid2 as f64)], 0); x.input("createStream result (buffer length + play command)", b, &[sid2]);
    let b = x.p.cmd("onStatus", 0.0, A::Null, &[status("NetStream.Play.Start")], sid2); x.input("onStatus Play.Start", b, &[]);
    let b = x.p.video(sid2, 0, payload(300, 3)); x.input("peer video", b, &[]);
    let r = guard("stop_playback", || x.c.stop_playback()); x.many("stop_playback (deleteStream)", r, &[sid2, 0]);
    let (label, recs) = (x.label.clone(), x.recs);
    c18_check(&label, &recs, &[sid, sid2], rng);
}
fn mode_c18(seed: u64) {
    let mut rng = Rng(seed ^ 0xC18);
    const T: u32 = 0xFFFFFF;
    let scripted: Vec<(&str, Vec<Med>)> = vec![
        ("live playback: sequence headers, key frame, consecutive droppable inter/audio frames", vec![
            med(true, 0, 0, 30, false), med(false, 0, 0, 7, false), med(true, 0, 0, 500, false), med(true, 0, 40, 200, true), med(true, 0, 80, 200, true),
            med(false, 0, 23, 90, true), med(false, 0, 46, 90, true), med(true, 0, 120, 260, true), med(false, 0, 69, 91, true), med(true, 0, 160, 500, false), med(false, 0, 92, 90, false)]),
        ("timestamps at the extended-timestamp threshold: absolute 0xFFFFFF, deltas of exactly 0xFFFFFF", vec![
            med(true, 0, T, 10, false), med(true, 0, T.wrapping_mul(2), 10, false), med(true, 0, T.wrapping_mul(3), 10, false), med(true, 0, T.wrapping_mul(4), 300, false),
            med(false, 0, T - 1, 5, false), med(false, 0, T, 5, true), med(false, 0, T + 1, 5, true), med(false, 0, 2 * T + 1, 200, false), med(false, 0, 3 * T + 1, 200, false)]),
        ("timestamps: 0xFFFFFE then +1, +0xFFFFFF; beyond 2^24; wrap past 2^32", vec![
            med(true, 0, T - 1, 0, false), med(true, 0, T, 1, false), med(true, 0, 2 * T, 1, true), med(true, 0, 0x1000000 + 2 * T, 129, true), med(true, 0, 0xFFFFFFF0, 128, false), med(true, 0, 5, 128, true), med(true, 0, 45, 128, false),
            med(false, 0, 0x1000000, 0, true), med(false, 0, 0x1000000, 0, true), med(false, 0, 0x7FFFFFFF, 1, false), med(false, 0, 0x80000000, 1, false)]),
        ("two playing streams interleaved, droppable packets back to back", vec![
            med(true, 0, 0, 100, false), med(true, 1, 0, 100, false), med(true, 0, 40, 100, true), med(true, 1, 40, 100, true), med(true, 1, 80, 100, true), med(true, 0, 80, 100, true), med(true, 0, 120, 100, false), med(true, 1, 120, 100, false),
            med(false, 1, 10, 64, true), med(false, 1, 20, 64, true), med(false, 1, 30, 64, true), med(false, 0, 30, 64, false)]),
        ("payload sizes 0, 1, 200, 5000, all droppable in a row", vec![
            med(true, 0, 0, 0, true), med(true, 0, 10, 1, true), med(true, 0, 20, 200, true), med(true, 0, 30, 5000, true), med(true, 0, 40, 5000, true), med(true, 0, 50, 0, true), med(true, 0, 60, 1, false)]),
    ];
    for (name, media) in &scripted {
        for &(cs, w) in &[(4096u32, None), (128, Some(200u32)), (50, None), (1, Some(1000))] {
            c18_server(cs, w, media, name, &mut rng);
            c18_client(cs, w, media, name, &mut rng);
        }
    }
    for round in 0..14 {
        let n = 6 + rng.below(12) as usize;
        let mut tv = rng.pick(&[0u32, T - 40, 0xFFFFFFD0, 0x1000000]); let mut ta = tv;
        let mut media = vec![];
        for _ in 0..n {
            let video = rng.below(2) == 0;
            let step = rng.pick(&[0u32, 1, 33, 40, 40, T - 1, T, T + 1, 0x1000000]);
            let t = if video { tv = tv.wrapping_add(step); tv } else { ta = ta.wrapping_add(step); ta };
            media.push(med(video, rng.below(3) as usize / 2, t, rng.pick(&[0usize, 1, 2, 127, 128, 129, 200, 200, 1000]), rng.below(5) < 3));
        }
        let cs = rng.pick(&[1u32, 64, 128, 129, 4096, 65536]);
        let w = rng.pick(&[None, Some(1u32), Some(300), Some(5000)]);
        let name = format!("pseudo-random media run #{} (seed {}): {}", round, seed, media.iter().map(|m| format!("{}{}(ts={},len={}{})", if m.video { "V" } else { "A" }, m.which, m.ts, m.len, if m.dropp { ",drop" } else { "" })).collect::<Vec<_>>().join(" "));
        c18_server(cs, w, &media, &name, &mut rng);
        c18_client(cs, w, &media, &name, &mut rng);
    }
}

// ================================================================ C09: server state machine
struct SR { ev: Vec<ServerSessionEvent>, out: Vec<Out> }
impl SR { fn show(&self) -> String { format!("events [{}], responses {}", self.ev.iter().map(|e| trunc(&sev(e), 200)).collect::<Vec<_>>().join(" | "), kinds(&self.out)) } }
struct Srv { s: ServerSession, p: Peer, dec: OutDec, log: Vec<String>, t: u32 }
impl Srv {
    fn new() -> Srv {
        let (s, init) = match guard("ServerSession::new", || ServerSession::new(ServerSessionConfig::new())) { Ok(Ok(x)) => x, Ok(Err(e)) => witness(format!("[c09] ServerSession::new failed: {}", e)), Err(e) => witness(format!("[c09] {}", e)) };
        let mut x = Srv { s, p: Peer::new(), dec: OutDec::new(), log: vec![], t: 0 };
        let _ = x.absorb("constructor", Ok(init)); x
    }
    fn bad(&self, what: String) -> ! { witness(format!("[c09] {} ; history: {}", what, self.log.join("; "))) }
    fn absorb(&mut self, what: &str, r: Result<Vec<ServerSessionResult>, String>) -> Result<SR, String> {
        let rs = r?;
        let mut sr = SR { ev: vec![], out: vec![] };
        for r in rs { match r {
            ServerSessionResult::OutboundResponse(pk) => match self.dec.feed(&pk.bytes) { Ok(v) => sr.out.extend(v.into_iter().filter(|o| !o.is_ack())), Err(e) => self.bad(format!("after {}: {}", what, e)) },
            ServerSessionResult::RaisedEvent(e) => sr.ev.push(e),
            _ => (),
        } }
        Ok(sr)
    }
    fn feed(&mut self, what: &str, bytes: Vec<u8>) -> SR {
        self.log.push(what.to_string()); ctx(format!("c09 {}", self.log.join("; ")));
        let r = match guard("handle_input", || self.s.handle_input(&bytes)) { Ok(Ok(v)) => Ok(v), Ok(Err(e)) => Err(format!("{}", e)), Err(e) => Err(e) };
        match self.absorb(what, r) { Ok(sr) => sr, Err(e) => self.bad(format!("peer message `{}` made handle_input fail: {}", what, e)) }
    }
    fn accept(&mut self, id: u32) -> Result<SR, String> {
        self.log.push(format!("accept_request({})", id)); ctx(format!("c09 {}", self.log.join("; ")));
        let r = match guard("accept_request", || self.s.accept_request(id)) { Ok(Ok(v)) => Ok(v), Ok(Err(e)) => Err(format!("{}", e)), Err(e) => self.bad(e) };
        self.absorb("accept_request", r)
    }
    fn reject(&mut self, id: u32) -> Result<SR, String> {
        self.log.push(format!("reject_request({})", id)); ctx(format!("c09 {}", self.log.join("; ")));
        let r = match guard("reject_request", || self.s.reject_request(id, "NetStream.Failed", "rejected")) { Ok(Ok(v)) => Ok(v), Ok(Err(e)) => Err(format!("{}", e)), Err(e) => self.bad(e) };
        self.absorb("reject_request", r)
    }
    fn connect(&mut self, app: &str, tx: f64) -> SR { let b = self.p.cmd("connect", tx, connect_obj(app, false), &[], 0); self.feed(&format!("connect(app {}, tx {})", app, tx), b) }
    fn create(&mut self, tx: f64) -> SR { let b = self.p.cmd("createStream", tx, A::Null, &[], 0); self.feed(&format!("createStream(tx {})", tx), b) }
    fn publish(&mut self, sid: u32, key: &str) -> SR { let b = self.p.cmd("publish", 0.0, A::Null, &[s(key), s("live")], sid); self.feed(&format!("publish({}) on stream {}", key, sid), b) }
    fn play(&mut self, sid: u32, key: &str) -> SR { let b = self.p.cmd("play", 0.0, A::Null, &[s(key)], sid); self.feed(&format!("play({}) on stream {}", key, sid), b) }
    fn close(&mut self, sid: u32) -> SR { let b = self.p.cmd("closeStream", 0.0, A::Null, &[A::N(sid as f64)], sid); self.feed(&format!("closeStream({})", sid), b) }
    fn delete(&mut self, sid: u32) -> SR { let b = self.p.cmd("deleteStream", 0.0, A::Null, &[A::N(sid as f64)], 0); self.feed(&format!("deleteStream({})", sid), b) }
    fn ping(&mut self, ts: u32) -> SR { let b = self.p.ping(ts); self.feed(&format!("ping request({})", ts), b) }
    // kind 0 audio, 1 video, 2 @setDataFrame; returns (result, payload, timestamp)
    fn media(&mut self, sid: u32, kind: u8) -> (SR, Vec<u8>, u32) {
        self.t = self.t.wrapping_add(13); let t = self.t; let d = payload(1 + (t as usize % 40), t as u8);
        let b = match kind { 0 => self.p.audio(sid, t, d.clone()), 1 => self.p.video(sid, t, d.clone()), _ => self.p.data(&[s("@setDataFrame"), s("onMetaData"), o(&[("width", A::N(t as f64))])], t, sid) };
        (self.feed(&format!("{} on stream {}", ["audio", "video", "@setDataFrame"][kind as usize % 3], sid), b), d, t)
    }
    // the statement's media clause: exactly one event tagged (app, key) iff `publishing` is Some((app, key)), none otherwise
    fn expect_media(&mut self, sid: u32, publishing: Option<(&str, &str)>) {
        for kind in 0..3u8 {
            let (r, d, t) = self.media(sid, kind);
            if !r.out.is_empty() { self.bad(format!("media on stream {} produced responses: {}", sid, r.show())); }
            match publishing {
                None => if !r.ev.is_empty() { self.bad(format!("{} arrived on stream {} which has no currently accepted publish request, yet the session raised: {}", ["audio", "video", "@setDataFrame"][kind as usize], sid, r.show())); },
                Some((app, key)) => {
                    let ok = r.ev.len() == 1 && match &r.ev[0] {
                        ServerSessionEvent::AudioDataReceived { app_name, stream_key, data, timestamp } => kind == 0 && app_name == app && stream_key == key && data[..] == d[..] && timestamp.value == t,
                        ServerSessionEvent::VideoDataReceived { app_name, stream_key, data, timestamp } => kind == 1 && app_name == app && stream_key == key && data[..] == d[..] && timestamp.value == t,
                        ServerSessionEvent::StreamMetadataChanged { app_name, stream_key, metadata } => kind == 2 && app_name == app && stream_key == key && metadata.video_width == Some(t),
                        _ => false };
                    if !ok { self.bad(format!("{} (timestamp {}, {} bytes) arrived on stream {} whose publish request (app {}, key {}) is accepted: expected exactly one matching event, got {}", ["audio", "video", "@setDataFrame"][kind as usize], t, d.len(), sid, app, key, r.show())); }
                }
            }
        }
    }
    fn one_request(&mut self, r: &SR, what: &str) -> u32 {
        if r.ev.len() != 1 || !r.out.is_empty() || sreq_id(&r.ev[0]).is_none() { self.bad(format!("{}: expected exactly one request event and no response, got {}", what, r.show())); }
        sreq_id(&r.ev[0]).unwrap()
    }
    fn expect_error_response(&mut self, r: &SR, what: &str) {
        if !r.ev.is_empty() || r.out.len() != 1 || r.out[0].cmd("_error").is_none() { self.bad(format!("{}: expected no event and exactly one _error response, got {}", what, r.show())); }
    }
    fn expect_refused(&mut self, r: Result<SR, String>, what: &str) {
        if let Ok(sr) = r { self.bad(format!("{} was not refused: {}", what, sr.show())); }
    }
    fn new_stream(&mut self, tx: f64, issued: &mut HashSet<u32>) -> u32 {
        let r = self.create(tx);
        let sid = if r.ev.is_empty() && r.out.len() == 1 { match r.out[0].cmd("_result") { Some((t, _, args)) if t == tx => match args.get(0) { Some(Amf0Value::Number(n)) if *n >= 1.0 && n.fract() == 0.0 => Some(*n as u32), _ => None }, _ => None } } else { None };
        let sid = match sid { Some(x) => x, None => self.bad(format!("createStream(tx {}): expected one _result under transaction id {} carrying the new stream id, got {}", tx, tx, r.show())) };
        if r.out[0].msid != 0 { self.bad(format!("createStream result sent on message stream {}", r.out[0].msid)); }
        if !issued.insert(sid) { self.bad(format!("createStream returned stream id {} which was issued before ({:?})", sid, issued)); }
        sid
    }
    fn connected(app: &str) -> (Srv, HashSet<u32>) {
        let mut x = Srv::new();
        let r = x.connect(app, 1.0); let id = x.one_request(&r, "connect");
        match x.accept(id) { Ok(sr) => if sr.out.iter().filter(|o| matches!(o.cmd("_result"), Some((t, _, _)) if t == 1.0)).count() != 1 || !sr.ev.is_empty() { x.bad(format!("accepting the connection request: expected one _result under transaction id 1, got {}", sr.show())) }, Err(e) => x.bad(format!("accept_request of a fresh connection request failed: {}", e)) }
        let mut ids = HashSet::new(); ids.insert(id);
        (x, ids)
    }
}
fn finished(r: &SR, publish: bool, app: &str, key: &str) -> bool {
    r.out.is_empty() && r.ev.len() == 1 && match &r.ev[0] {
        ServerSessionEvent::PublishStreamFinished { app_name, stream_key } => publish && app_name == app && stream_key == key,
        ServerSessionEvent::PlayStreamFinished { app_name, stream_key } => !publish && app_name == app && stream_key == key,
        _ => false }
}
fn c09_scripted() {
    // 1. publish / play before a connection request was accepted: error response, no request event; media ignored
    for stage in 0..3 {
        let mut x = Srv::new(); let mut sids = HashSet::new();
        let sid = x.new_stream(1.0, &mut sids);
        if stage >= 1 { let r = x.connect("live", 2.0); let id = x.one_request(&r, "connect"); if stage == 2 { match x.reject(id) { Ok(sr) => if sr.out.len() != 1 || sr.out[0].cmd("_error").is_none() { x.bad(format!("rejecting the connection request: expected one _error response, got {}", sr.show())) }, Err(e) => x.bad(format!("reject_request of a fresh id failed: {}", e)) } } }
        let what = ["before any connect", "while the connection request is still pending", "after the connection request was rejected"][stage];
        let r = x.publish(sid, "k"); x.expect_error_response(&r, &format!("publish {}", what));
        let r = x.play(sid, "k"); x.expect_error_response(&r, &format!("play {}", what));
        x.expect_media(sid, None);
        let r = x.ping(42); if r.out.len() != 1 || r.out[0].ping_response() != Some(42) || !r.ev.is_empty() { x.bad(format!("ping request(42) {}: expected one ping response carrying 42, got {}", what, r.show())); }
    }
    // 1b. several connection requests: the application name that tags later events is the one of the ACCEPTED request
    {
        let mut x = Srv::new(); let mut sids = HashSet::new();
        let r = x.connect("alpha", 1.0); let ida = x.one_request(&r, "connect(alpha)");
        let r = x.connect("beta", 2.0); let idb = x.one_request(&r, "connect(beta)");
        if ida == idb { x.bad(format!("two pending connection requests share the id {}", ida)); }
        match x.accept(ida) { Ok(sr) => if sr.out.iter().filter(|o| matches!(o.cmd("_result"), Some((t, _, _)) if t == 1.0)).count() != 1 { x.bad(format!("accepting connect(alpha): expected a _result under transaction id 1, got {}", sr.show())) }, Err(e) => x.bad(format!("accept_request({}) failed: {}", ida, e)) }
        let sid = x.new_stream(3.0, &mut sids);
        let r = x.publish(sid, "k1"); let q = x.one_request(&r, "publish");
        if !matches!(&r.ev[0], ServerSessionEvent::PublishStreamRequested { app_name, .. } if app_name == "alpha") { x.bad(format!("connect(alpha) was accepted, connect(beta) is still pending: the publish request must be tagged with alpha, got {}", r.show())); }
        if let Err(e) = x.accept(q) { x.bad(format!("accept_request({}) failed: {}", q, e)); }
        x.expect_media(sid, Some(("alpha", "k1")));
        match x.reject(idb) { Ok(sr) => if sr.out.len() != 1 || sr.out[0].cmd("_error").is_none() { x.bad(format!("rejecting connect(beta): {}", sr.show())) }, Err(e) => x.bad(format!("reject_request({}) failed: {}", idb, e)) }
        x.expect_media(sid, Some(("alpha", "k1")));
        let r = x.connect("gamma", 4.0); let idc = x.one_request(&r, "connect(gamma) while connected"); if idc == ida || idc == idb || idc == q { x.bad(format!("connection request id {} reused", idc)); }
        x.expect_media(sid, Some(("alpha", "k1")));       // gamma was only requested, never accepted
        let r = x.reject(idc); if r.is_err() { x.bad("reject_request of the pending connect(gamma) failed".into()); }
        x.expect_media(sid, Some(("alpha", "k1")));
        let r = x.delete(sid); if !finished(&r, true, "alpha", "k1") { x.bad(format!("deleteStream: expected PublishStreamFinished(alpha, k1), got {}", r.show())); }
    }
    // 2. ids: fresh, accepted or rejected exactly once, any other id refused without side effects
    {
        let (mut x, mut ids) = Srv::connected("live");
        let first = *ids.iter().next().unwrap();
        let r = x.accept(first); x.expect_refused(r, "accept_request of the already accepted connection request id");
        let r = x.reject(first); x.expect_refused(r, "reject_request of the already accepted connection request id");
        let r = x.accept(4711); x.expect_refused(r, "accept_request(4711), an id never issued");
        let mut sids = HashSet::new();
        let a = x.new_stream(2.0, &mut sids); let b = x.new_stream(3.0, &mut sids); let c = x.new_stream(4.0, &mut sids);
        let r = x.play(a, "watch"); let p = x.one_request(&r, "play");
        if !matches!(&r.ev[0], ServerSessionEvent::PlayStreamRequested { app_name, stream_key, stream_id, .. } if app_name == "live" && stream_key == "watch" && *stream_id == a) { x.bad(format!("play request event has wrong contents: {}", r.show())); }
        let r = x.publish(b, "push"); let q = x.one_request(&r, "publish");
        if !matches!(&r.ev[0], ServerSessionEvent::PublishStreamRequested { app_name, stream_key, .. } if app_name == "live" && stream_key == "push") { x.bad(format!("publish request event has wrong contents: {}", r.show())); }
        if !ids.insert(p) { x.bad(format!("the play request got id {} which was issued before", p)); }
        if !ids.insert(q) { x.bad(format!("the publish request got id {} although the ids {:?} were issued before (the play request with id {} is still pending)", q, ids, p)); }
        x.expect_media(b, None);      // publish request pending, not accepted
        match x.accept(q) { Ok(sr) => if !sr.ev.is_empty() || sr.out.is_empty() || sr.out.iter().any(|o| o.ty == 20 && o.msid != b) { x.bad(format!("accepting the publish request: {}", sr.show())) }, Err(e) => x.bad(format!("accept_request({}) of the pending publish request failed: {}", q, e)) }
        x.expect_media(b, Some(("live", "push")));
        x.expect_media(a, None);
        match x.accept(p) { Ok(sr) => if !sr.ev.is_empty() || sr.out.is_empty() { x.bad(format!("accepting the play request: {}", sr.show())) }, Err(e) => x.bad(format!("accept_request({}) of the pending play request failed: {}", p, e)) }
        x.expect_media(a, None);      // a playing stream never raises media events
        x.expect_media(b, Some(("live", "push")));
        for id in [p, q, first] { let r = x.accept(id); x.expect_refused(r, &format!("accept_request({}), an id that was already consumed,", id)); let r = x.reject(id); x.expect_refused(r, &format!("reject_request({}), an id that was already consumed,", id)); }
        x.expect_media(b, Some(("live", "push")));
        // later requests: fresh ids; the consumed ones stay invalid
        let r = x.play(c, "late"); let s3 = x.one_request(&r, "play");
        if !ids.insert(s3) { x.bad(format!("a later play request got id {} which was issued before ({:?})", s3, ids)); }
        for id in [p, q] { let r = x.accept(id); x.expect_refused(r, &format!("accept_request({}), consumed before the later request {} was raised,", id, s3)); }
        x.expect_media(c, None); x.expect_media(a, None); x.expect_media(b, Some(("live", "push")));
        match x.reject(s3) { Ok(sr) => if !sr.ev.is_empty() || sr.out.len() != 1 || sr.out[0].cmd("_error").is_none() { x.bad(format!("rejecting the play request: expected one _error response, got {}", sr.show())) }, Err(e) => x.bad(format!("reject_request({}) of a pending request failed: {}", s3, e)) }
        let r = x.accept(s3); x.expect_refused(r, "accept_request of a rejected request id");
        let r = x.close(c); if !r.ev.is_empty() { x.bad(format!("closeStream of a stream whose play request was rejected raised {}", r.show())); }
        // 3. finished events: exactly one per close / delete of a publishing or playing stream
        let r = x.close(b); if !finished(&r, true, "live", "push") { x.bad(format!("closeStream({}) of the publishing stream: expected exactly one PublishStreamFinished(live, push), got {}", b, r.show())); }
        x.expect_media(b, None);
        let r = x.close(b); if !r.ev.is_empty() { x.bad(format!("second closeStream({}) raised {}", b, r.show())); }
        let r = x.publish(b, "again"); let q2 = x.one_request(&r, "publish after closeStream");
        if !ids.insert(q2) { x.bad(format!("the re-publish request got id {} which was issued before", q2)); }
        if let Err(e) = x.accept(q2) { x.bad(format!("accept_request({}) failed: {}", q2, e)); }
        x.expect_media(b, Some(("live", "again")));
        let r = x.delete(b); if !finished(&r, true, "live", "again") { x.bad(format!("deleteStream({}) of the publishing stream: expected exactly one PublishStreamFinished(live, again), got {}", b, r.show())); }
        x.expect_media(b, None);
        let r = x.delete(b); if !r.ev.is_empty() { x.bad(format!("second deleteStream({}) raised {}", b, r.show())); }
        x.expect_media(b, None);
        let r = x.close(a); if !finished(&r, false, "live", "watch") { x.bad(format!("closeStream({}) of the playing stream: expected exactly one PlayStreamFinished(live, watch), got {}", a, r.show())); }
        let r = x.close(a); if !r.ev.is_empty() { x.bad(format!("second closeStream({}) raised {}", a, r.show())); }
        let r = x.play(a, "w2"); let p2 = x.one_request(&r, "play after closeStream"); if !ids.insert(p2) { x.bad(format!("id {} reused", p2)); }
        if let Err(e) = x.accept(p2) { x.bad(format!("accept_request({}) failed: {}", p2, e)); }
        let r = x.delete(a); if !finished(&r, false, "live", "w2") { x.bad(format!("deleteStream({}) of the playing stream: expected exactly one PlayStreamFinished(live, w2), got {}", a, r.show())); }
        let r = x.delete(a); if !r.ev.is_empty() { x.bad(format!("second deleteStream({}) of a playing stream raised {}", a, r.show())); }
        let d = x.new_stream(9.0, &mut sids);       // ids of deleted streams are not issued again
        x.expect_media(d, None); x.expect_media(4242, None);
        for ts in [0u32, 1, 0xFFFFFF, 0x1000000, 0x7FFFFFFF, 0x80000000, 0xFFFFFFFF] { let r = x.ping(ts); if r.out.len() != 1 || r.out[0].ping_response() != Some(ts) || !r.ev.is_empty() { x.bad(format!("ping request({}): expected exactly one ping response carrying {}, got {}", ts, ts, r.show())); } }
    }
}
// pseudo-random histories against a model of the statement (ambiguous situations are not generated: a second connect, requests
// on a stream that is not idle, close / delete of a stream with a pending request or before the connection is accepted)
#[derive(Clone, Debug, PartialEq)]
enum St { Created, Publishing(String), Playing(String) }
#[derive(Clone, Debug)]
enum Rq { Conn(String, f64), Pub(u32, String), Play(u32, String) }
fn c09_walk(rng: &mut Rng, steps: usize) {
    let mut x = Srv::new();
    let mut app: Option<String> = None;
    let mut pending: Vec<(u32, Rq)> = vec![]; let mut consumed: Vec<u32> = vec![]; let mut ids: HashSet<u32> = HashSet::new();
    let mut streams: Vec<(u32, St)> = vec![]; let mut sids: HashSet<u32> = HashSet::new(); let mut tx = 10.0;
    if rng.below(2) == 0 {   // half of the histories start with an accepted connection, so that the later states get visited often
        let name = rng.pick(&["live", "app2"]); let r = x.connect(name, 5.0); let id = x.one_request(&r, "connect"); ids.insert(id);
        match x.accept(id) { Ok(sr) => if sr.out.iter().filter(|o| matches!(o.cmd("_result"), Some((t, _, _)) if t == 5.0)).count() != 1 || !sr.ev.is_empty() { x.bad(format!("accepted connection request: expected a _result under transaction id 5, got {}", sr.show())) }, Err(e) => x.bad(format!("accept_request({}) of the fresh connection request failed: {}", id, e)) }
        consumed.push(id); app = Some(name.to_string());
    }
    for _ in 0..steps {
        tx += 1.0;
        let busy = |sid: u32, pending: &Vec<(u32, Rq)>| pending.iter().any(|(_, r)| matches!(r, Rq::Pub(s, _) | Rq::Play(s, _) if *s == sid));
        match rng.below(14) {
            0 => if pending.iter().filter(|p| matches!(p.1, Rq::Conn(..))).count() < 3 {
                let name = rng.pick(&["live", "app2", "third"]); let r = x.connect(name, tx); let id = x.one_request(&r, "connect");
                if !matches!(&r.ev[0], ServerSessionEvent::ConnectionRequested { app_name, .. } if app_name == name) { x.bad(format!("connect({}): wrong event {}", name, r.show())); }
                if !ids.insert(id) { x.bad(format!("the connection request got id {} which was issued before", id)); }
                pending.push((id, Rq::Conn(name.to_string(), tx)));
            },
            1 => { let sid = x.new_stream(tx, &mut sids); streams.push((sid, St::Created)); }
            2 | 3 => {
                // one time in four a stream that is already publishing / playing is RE-PURPOSED without a close or delete in between
                // (the accepted request then decides key and direction: media must follow the NEW request)
                let any_state = rng.below(4) == 0;
                let idle: Vec<u32> = streams.iter().filter(|(s, st)| (any_state || *st == St::Created) && !busy(*s, &pending)).map(|(s, _)| *s).collect();
                if idle.is_empty() { continue; }
                let sid = rng.pick(&idle); let key = format!("key{}", tx); let is_pub = rng.below(2) == 0;
                let r = if is_pub { x.publish(sid, &key) } else { x.play(sid, &key) };
                match &app {
                    None => { stat("c09 publish/play before connected"); x.expect_error_response(&r, &format!("{} before a connection request was accepted", if is_pub { "publish" } else { "play" })) }
                    Some(a) => {
                        let id = x.one_request(&r, if is_pub { "publish" } else { "play" });
                        let ok = match &r.ev[0] { ServerSessionEvent::PublishStreamRequested { app_name, stream_key, .. } => is_pub && app_name == a && *stream_key == key,
                                                  ServerSessionEvent::PlayStreamRequested { app_name, stream_key, stream_id, .. } => !is_pub && app_name == a && *stream_key == key && *stream_id == sid, _ => false };
                        if !ok { x.bad(format!("request event with wrong contents (expected app {}, key {}): {}", a, key, r.show())); }
                        if !ids.insert(id) { x.bad(format!("request id {} was issued before (all ids so far {:?}, still pending {:?})", id, ids, pending.iter().map(|p| p.0).collect::<Vec<_>>())); }
                        pending.push((id, if is_pub { Rq::Pub(sid, key) } else { Rq::Play(sid, key) }));
                    }
                }
            }
            4 | 5 | 6 => {
                let mut accept = rng.below(3) != 0;
                let sel = rng.below(10);
                if sel < 6 && !pending.is_empty() {
                    let (id, rq) = pending.remove(rng.below(pending.len() as u64) as usize);
                    if app.is_some() && matches!(rq, Rq::Conn(..)) { accept = false; }   // what accepting a second connection means is not settled by the statement
                    let r = if accept { x.accept(id) } else { x.reject(id) };
                    let sr = match r { Ok(sr) => sr, Err(e) => x.bad(format!("{}_request({}) of the pending request {:?} failed: {}", if accept { "accept" } else { "reject" }, id, rq, e)) };
                    if !sr.ev.is_empty() { x.bad(format!("answering request {} raised events: {}", id, sr.show())); }
                    consumed.push(id);
                    match (&rq, accept) {
                        (Rq::Conn(name, t), true) => { if sr.out.iter().filter(|o| matches!(o.cmd("_result"), Some((tt, _, _)) if tt == *t)).count() != 1 { x.bad(format!("accepted connection request: expected a _result under transaction id {}, got {}", t, sr.show())); } app = Some(name.clone()); }
                        (Rq::Conn(_, _), false) => { if sr.out.len() != 1 || sr.out[0].cmd("_error").is_none() { x.bad(format!("rejected connection request: expected one _error, got {}", sr.show())); } }
                        (Rq::Pub(sid, key), true) => { if sr.out.is_empty() { x.bad("accepted publish request produced no response".into()); } for st in streams.iter_mut() { if st.0 == *sid { st.1 = St::Publishing(key.clone()); } } }
                        (Rq::Play(sid, key), true) => { if sr.out.is_empty() { x.bad("accepted play request produced no response".into()); } for st in streams.iter_mut() { if st.0 == *sid { st.1 = St::Playing(key.clone()); } } }
                        (_, false) => if sr.out.len() != 1 || sr.out[0].cmd("_error").is_none() { x.bad(format!("rejected request: expected one _error, got {}", sr.show())); },
                    }
                } else {
                    let id = if sel < 8 && !consumed.is_empty() { rng.pick(&consumed) } else { let mut v = 1000 + rng.below(5) as u32; while ids.contains(&v) { v += 1; } v };
                    let r = if accept { x.accept(id) } else { x.reject(id) };
                    stat(if consumed.contains(&id) { "c09 stale id refused" } else { "c09 unknown id refused" });
                    x.expect_refused(r, &format!("{}_request({}) (an id that is {})", if accept { "accept" } else { "reject" }, id, if consumed.contains(&id) { "already consumed" } else { "unknown" }));
                }
            }
            7 | 8 | 9 => {
                let mut cands: Vec<u32> = streams.iter().map(|s| s.0).collect(); cands.push(4000 + rng.below(3) as u32);
                let sid = rng.pick(&cands);
                let st = streams.iter().find(|s| s.0 == sid).map(|s| s.1.clone());
                let a = app.clone();
                match (st, a) { (Some(St::Publishing(k)), Some(a)) => { stat("c09 media on a publishing stream"); x.expect_media(sid, Some((&a, &k))) } (Some(St::Playing(_)), _) => { stat("c09 media on a playing stream"); x.expect_media(sid, None) } _ => { stat("c09 media elsewhere"); x.expect_media(sid, None) } }
            }
            10 | 11 => if let Some(a) = app.clone() {
                let cands: Vec<u32> = streams.iter().filter(|(s, _)| !busy(*s, &pending)).map(|(s, _)| *s).collect();
                if cands.is_empty() { continue; }
                let sid = rng.pick(&cands); let del = rng.below(2) == 0;
                let st = streams.iter().find(|s| s.0 == sid).map(|s| s.1.clone()).unwrap();
                let r = if del { x.delete(sid) } else { x.close(sid) };
                stat(&format!("c09 {} of a {} stream", if del { "delete" } else { "close" }, match &st { St::Created => "idle", St::Publishing(_) => "publishing", St::Playing(_) => "playing" }));
                let ok = match &st { St::Created => r.ev.is_empty(), St::Publishing(k) => finished(&r, true, &a, k), St::Playing(k) => finished(&r, false, &a, k) };
                if !ok { x.bad(format!("{}Stream({}) of a stream in state {:?} (app {}): expected {}, got {}", if del { "delete" } else { "close" }, sid, st, a, if st == St::Created { "no event" } else { "exactly one matching finished event" }, r.show())); }
                if del { streams.retain(|s| s.0 != sid); } else { for s in streams.iter_mut() { if s.0 == sid { s.1 = St::Created; } } }
            },
            12 => { let ts = rng.pick(&[0u32, 7, 0xFFFFFF, 0x1000000, 0xFFFFFFFF, 123456789]); let r = x.ping(ts); if r.out.len() != 1 || r.out[0].ping_response() != Some(ts) || !r.ev.is_empty() { x.bad(format!("ping request({}): expected exactly one ping response carrying {}, got {}", ts, ts, r.show())); } }
            _ => {
                // malformed argument lists / unknown commands: no request ids, no media or finished events
                let sid = streams.first().map(|s| s.0).unwrap_or(1);
                let (what, b) = match rng.below(5) {
                    0 => ("publish without arguments", x.p.cmd("publish", tx, A::Null, &[], sid)), 1 => ("play without arguments", x.p.cmd("play", tx, A::Null, &[], sid)),
                    2 => ("closeStream without arguments", x.p.cmd("closeStream", 0.0, A::Null, &[], sid)), 3 => ("deleteStream with a string argument", x.p.cmd("deleteStream", 0.0, A::Null, &[s("x")], 0)),
                    _ => ("unknown command", x.p.cmd("fooBar", tx, A::Null, &[A::N(1.0)], sid)) };
                let r = x.feed(what, b);
                if r.ev.iter().any(|e| !matches!(e, ServerSessionEvent::UnhandleableAmf0Command { .. })) { x.bad(format!("{} raised {}", what, r.show())); }
                if what.starts_with("p") && (r.out.len() != 1 || r.out[0].cmd("_error").is_none()) { x.bad(format!("{}: expected one _error response, got {}", what, r.show())); }
            }
        }
    }
}
fn mode_c09(seed: u64) {
    c09_scripted();
    let mut rng = Rng(seed ^ 0xC09C09);
    for _ in 0..3000 { c09_walk(&mut rng, 70); }
}

// ================================================================ C10: client workflow
struct CR { ev: Vec<ClientSessionEvent>, out: Vec<Out>, err: Option<String> }
impl CR { fn show(&self) -> String { format!("{}events [{}], emitted {}", self.err.as_ref().map(|e| format!("Err({}), ", e)).unwrap_or_default(), self.ev.iter().map(|e| trunc(&cev(e), 200)).collect::<Vec<_>>().join(" | "), kinds(&self.out)) }
          fn silent(&self) -> bool { self.ev.is_empty() && self.out.is_empty() } }
struct Cli { c: ClientSession, p: Peer, dec: OutDec, log: Vec<String>, t: u32 }
impl Cli {
    fn new() -> Cli {
        let (c, init) = match guard("ClientSession::new", || ClientSession::new(ClientSessionConfig::new())) { Ok(Ok(x)) => x, Ok(Err(e)) => witness(format!("[c10] ClientSession::new failed: {}", e)), Err(e) => witness(format!("[c10] {}", e)) };
        let mut x = Cli { c, p: Peer::new(), dec: OutDec::new(), log: vec![], t: 0 };
        let _ = x.absorb("constructor", Ok(init)); x
    }
    fn bad(&self, what: String) -> ! { witness(format!("[c10] {} ; history: {}", what, self.log.join("; "))) }
    fn note(&mut self, what: &str) { self.log.push(what.to_string()); ctx(format!("c10 {}", self.log.join("; "))); }
    fn absorb(&mut self, what: &str, r: Result<Vec<ClientSessionResult>, String>) -> CR {
        let mut cr = CR { ev: vec![], out: vec![], err: None };
        match r {
            Err(e) => cr.err = Some(e),
            Ok(rs) => for r in rs { match r {
                ClientSessionResult::OutboundResponse(pk) => match self.dec.feed(&pk.bytes) { Ok(v) => cr.out.extend(v.into_iter().filter(|o| !o.is_ack())), Err(e) => self.bad(format!("after {}: {}", what, e)) },
                ClientSessionResult::RaisedEvent(e) => cr.ev.push(e),
                _ => (),
            } },
        }
        cr
    }
    // an application call; a panic is a witness, an Err is returned in CR.err
    fn call<E: std::fmt::Display>(&mut self, what: &str, f: impl FnOnce(&mut ClientSession) -> Result<Vec<ClientSessionResult>, E>) -> CR {
        self.note(what);
        let r = match guard(what, || f(&mut self.c)) { Ok(Ok(v)) => Ok(v), Ok(Err(e)) => Err(format!("{}", e)), Err(e) => self.bad(e) };
        self.absorb(what, r)
    }
    fn feed(&mut self, what: &str, bytes: Vec<u8>) -> CR { self.call(what, |c| c.handle_input(&bytes)) }
    fn req_conn(&mut self, app: &str) -> CR { let a = app.to_string(); self.call(&format!("request_connection({})", app), |c| c.request_connection(a).map(|r| vec![r])) }
    fn req_play(&mut self, key: &str) -> CR { let k = key.to_string(); self.call(&format!("request_playback({})", key), |c| c.request_playback(k).map(|r| vec![r])) }
    fn req_pub(&mut self, key: &str) -> CR { let k = key.to_string(); self.call(&format!("request_publishing({})", key), |c| c.request_publishing(k, PublishRequestType::Live).map(|r| vec![r])) }
    fn stop_play(&mut self) -> CR { self.call("stop_playback", |c| c.stop_playback()) }
    fn stop_pub(&mut self) -> CR { self.call("stop_publishing", |c| c.stop_publishing()) }
    fn pub_media(&mut self, kind: u8) -> (CR, Vec<u8>, u32) {
        self.t = self.t.wrapping_add(11); let t = self.t; let d = payload(1 + t as usize % 50, t as u8); let dd = d.clone();
        let r = match kind { 0 => self.call("publish_audio_data", |c| c.publish_audio_data(Bytes::from(dd), RtmpTimestamp::new(t), false).map(|r| vec![r])),
                             1 => self.call("publish_video_data", |c| c.publish_video_data(Bytes::from(dd), RtmpTimestamp::new(t), true).map(|r| vec![r])),
                             _ => self.call("publish_metadata", |c| c.publish_metadata(&full_metadata()).map(|r| vec![r])) };
        (r, d, t)
    }
    fn result(&mut self, tx: f64, args: &[A]) -> CR { let b = self.p.cmd("_result", tx, A::Null, args, 0); self.feed(&format!("_result(tx {}, {} args)", tx, args.len()), b) }
    fn error(&mut self, tx: f64, desc: &str) -> CR { let b = self.p.cmd("_error", tx, A::Null, &[o(&[("level", s("error")), ("code", s("NetConnection.Connect.Rejected")), ("description", s(desc))])], 0); self.feed(&format!("_error(tx {})", tx), b) }
    fn on_status(&mut self, code: &str, sid: u32) -> CR { let b = self.p.cmd("onStatus", 0.0, A::Null, &[status(code)], sid); self.feed(&format!("onStatus({}) on stream {}", code, sid), b) }
    fn ping(&mut self, ts: u32) -> CR { let b = self.p.ping(ts); self.feed(&format!("ping request({})", ts), b) }
    fn media_in(&mut self, sid: u32, kind: u8) -> (CR, Vec<u8>, u32) {
        self.t = self.t.wrapping_add(13); let t = self.t; let d = payload(1 + (t as usize % 40), t as u8);
        let b = match kind { 0 => self.p.audio(sid, t, d.clone()), 1 => self.p.video(sid, t, d.clone()), _ => self.p.data(&[s("onMetaData"), o(&[("width", A::N(t as f64))])], t, sid) };
        (self.feed(&format!("{} on stream {}", ["audio", "video", "onMetaData"][kind as usize % 3], sid), b), d, t)
    }
    // media clause: exactly one event iff `active` (play requested or running and this is the active stream); otherwise no event (Ok or Err)
    fn expect_media_in(&mut self, sid: u32, active: bool, kinds_: &[u8], why: &str) {
        for &kind in kinds_ {
            let (r, d, t) = self.media_in(sid, kind);
            let name = ["audio", "video", "onMetaData"][kind as usize];
            if !r.out.is_empty() { self.bad(format!("{} on stream {} made the session emit {}", name, sid, r.show())); }
            if active {
                let ok = r.err.is_none() && r.ev.len() == 1 && match &r.ev[0] {
                    ClientSessionEvent::AudioDataReceived { data, timestamp } => kind == 0 && data[..] == d[..] && timestamp.value == t,
                    ClientSessionEvent::VideoDataReceived { data, timestamp } => kind == 1 && data[..] == d[..] && timestamp.value == t,
                    ClientSessionEvent::StreamMetadataReceived { metadata } => kind == 2 && metadata.video_width == Some(t),
                    _ => false };
                if !ok { self.bad(format!("{} (timestamp {}) on the active stream {} {}: expected exactly one matching event, got {}", name, t, sid, why, r.show())); }
            } else if !r.ev.is_empty() { self.bad(format!("{} on stream {} {}: no media event may be raised, got {}", name, sid, why, r.show())); }
        }
    }
    fn expect_refused(&mut self, r: CR, what: &str) { if r.err.is_none() || !r.silent() { self.bad(format!("{} must be refused with an error and without emitting anything, got {}", what, r.show())); } }
    fn expect_nothing(&mut self, r: CR, what: &str) { if !r.silent() { self.bad(format!("{} must not emit or raise anything, got {}", what, r.show())); } }
    fn expect_cmd(&mut self, r: &CR, name: &str, msid: &[u32], what: &str) -> (f64, Vec<Amf0Value>, Amf0Value) {
        let cmds: Vec<&Out> = r.out.iter().filter(|o| o.ty == 20).collect();
        if r.err.is_some() || cmds.len() != 1 || cmds[0].cmd(name).is_none() || !msid.contains(&cmds[0].msid) { self.bad(format!("{}: expected exactly one `{}` command on message stream {:?}, got {}", what, name, msid, r.show())); }
        let (tx, obj, args) = cmds[0].cmd(name).unwrap(); (tx, args.clone(), obj.clone())
    }
    fn expect_unknown_tx(&mut self, r: &CR, tx: f64, what: &str) {
        let ok = r.err.is_none() && r.out.is_empty() && r.ev.len() == 1 && matches!(&r.ev[0], ClientSessionEvent::UnknownTransactionResultReceived { transaction_id, .. } if *transaction_id == tx);
        if !ok { self.bad(format!("{}: must be reported as a result for an unknown transaction ({}) and not applied (no bytes), got {}", what, tx, r.show())); }
    }
    fn expect_pong(&mut self, ts: u32) { let r = self.ping(ts); if r.err.is_some() || !r.ev.is_empty() || r.out.len() != 1 || r.out[0].ping_response() != Some(ts) { self.bad(format!("ping request({}): expected exactly one ping response carrying {}, got {}", ts, ts, r.show())); } }
    fn fresh_tx(&mut self, tx: f64, used: &mut Vec<f64>, what: &str) { if used.contains(&tx) || tx < 1.0 { self.bad(format!("{} used transaction id {} (ids used before: {:?})", what, tx, used)); } used.push(tx); }
    fn expect_delete(&mut self, r: &CR, sid: u32, what: &str) {
        let (_, args, _) = self.expect_cmd(r, "deleteStream", &[sid, 0], what);
        if r.out.len() != 1 || !r.ev.is_empty() || !matches!(args.get(0), Some(Amf0Value::Number(n)) if *n == sid as f64) { self.bad(format!("{}: expected exactly one deleteStream({}) and nothing else, got {}", what, sid, r.show())); }
    }
    // drives a fresh session to Connected; returns the transaction ids used
    fn connected() -> (Cli, Vec<f64>) {
        let mut x = Cli::new(); let mut used = vec![];
        let r = x.req_conn("live"); let (tx, _, obj) = x.expect_cmd(&r, "connect", &[0], "request_connection"); x.fresh_tx(tx, &mut used, "connect");
        if !camf(&obj).contains("app:Utf8String(\"live\")") { x.bad(format!("connect command does not carry the application name: {}", r.show())); }
        let r = x.result(tx, &[]);
        if r.err.is_some() || r.ev != vec![ClientSessionEvent::ConnectionRequestAccepted] || r.out.iter().any(|o| o.ty == 20) { x.bad(format!("connect result: expected exactly the accepted event, got {}", r.show())); }
        (x, used)
    }
}
fn c10_scripted() {
    // 1. disconnected: only connect is permitted
    {
        let mut x = Cli::new(); let mut used = vec![];
        let r = x.req_play("k"); x.expect_refused(r, "request_playback while disconnected");
        let r = x.req_pub("k"); x.expect_refused(r, "request_publishing while disconnected");
        for k in 0..3 { let (r, _, _) = x.pub_media(k); x.expect_refused(r, "publish_* while disconnected"); }
        let r = x.stop_play(); x.expect_nothing(r, "stop_playback while disconnected"); let r = x.stop_pub(); x.expect_nothing(r, "stop_publishing while disconnected");
        x.expect_media_in(1, false, &[0, 1, 2], "while disconnected");
        x.expect_pong(7);
        let r = x.result(77.0, &[A::N(1.0)]); x.expect_unknown_tx(&r, 77.0, "_result for a transaction id never used");
        let r = x.req_play("k"); x.expect_refused(r, "request_playback while disconnected (after a forged result)");
        // the refused calls must not have consumed anything: the connect command looks exactly like on a fresh session
        let r = x.req_conn("live"); let (tx, _, _) = x.expect_cmd(&r, "connect", &[0], "request_connection"); x.fresh_tx(tx, &mut used, "connect");
        let mut y = Cli::new(); let r2 = y.req_conn("live");
        if kinds(&r.out) != kinds(&r2.out) { x.bad(format!("request_connection after refused calls emits {} but on a fresh session {}", kinds(&r.out), kinds(&r2.out))); }
        // 2. connect rejected; the same transaction answered again must not be applied
        let r = x.error(tx, "nope");
        if r.err.is_some() || !r.out.is_empty() || r.ev != vec![(ClientSessionEvent::ConnectionRequestRejected { description: "nope".to_string() })] { x.bad(format!("connect _error: expected exactly the rejected event with the description, got {}", r.show())); }
        let r = x.result(tx, &[]); x.expect_unknown_tx(&r, tx, "a late _result for the already rejected connect transaction");
        let r = x.req_play("k"); x.expect_refused(r, "request_playback after the connection was rejected (and a late _result arrived)");
        let r = x.error(tx, "again"); x.expect_unknown_tx(&r, tx, "a second _error for the already rejected connect transaction");
        let r = x.req_conn("live"); let (tx2, _, _) = x.expect_cmd(&r, "connect", &[0], "request_connection after a rejection"); x.fresh_tx(tx2, &mut used, "second connect");
        let r = x.result(tx2, &[]); if r.ev != vec![ClientSessionEvent::ConnectionRequestAccepted] { x.bad(format!("second connect result: {}", r.show())); }
        let r = x.result(tx2, &[]); x.expect_unknown_tx(&r, tx2, "a duplicate connect _result");
        let r = x.req_conn("live"); x.expect_refused(r, "request_connection while connected");
    }
    // 3. play workflow
    {
        let (mut x, mut used) = Cli::connected();
        for k in 0..3 { let (r, _, _) = x.pub_media(k); x.expect_refused(r, "publish_* while connected and idle"); }
        let r = x.stop_play(); x.expect_nothing(r, "stop_playback while idle");
        x.expect_media_in(1, false, &[0, 1, 2], "while connected and idle");
        // failed createStream, then a late result re-using the id
        let r = x.req_play("key"); let (t1, _, _) = x.expect_cmd(&r, "createStream", &[0], "request_playback"); x.fresh_tx(t1, &mut used, "createStream");
        let r = x.error(t1, "no"); if !r.silent() { x.bad(format!("createStream _error: nothing may be emitted, got {}", r.show())); }
        let r = x.result(t1, &[A::N(9.0)]); x.expect_unknown_tx(&r, t1, "a late _result for the createStream transaction that already failed");
        let r = x.stop_play(); x.expect_nothing(r, "stop_playback after a failed createStream (the session must be idle)");
        x.expect_media_in(9, false, &[0, 1, 2], "after a failed createStream and a late result");
        // successful play
        let r = x.req_play("key2"); let (t2, _, _) = x.expect_cmd(&r, "createStream", &[0], "request_playback"); x.fresh_tx(t2, &mut used, "createStream");
        let r = x.result(4242.0, &[A::N(3.0)]); x.expect_unknown_tx(&r, 4242.0, "_result for a forged transaction id while createStream is pending");
        let r = x.result(t2, &[A::N(5.0)]); let (_, args, _) = x.expect_cmd(&r, "play", &[5], "createStream result");
        if !r.ev.is_empty() || !matches!(args.get(0), Some(Amf0Value::Utf8String(k)) if k == "key2") { x.bad(format!("createStream result: expected a play command for key2 on the returned stream 5, got {}", r.show())); }
        let r = x.result(t2, &[A::N(6.0)]); x.expect_unknown_tx(&r, t2, "a duplicate createStream _result");
        let r = x.req_play("k"); x.expect_refused(r, "request_playback while play is requested"); let r = x.req_pub("k"); x.expect_refused(r, "request_publishing while play is requested");
        let r = x.req_conn("live"); x.expect_refused(r, "request_connection while play is requested");
        for k in 0..3 { let (r, _, _) = x.pub_media(k); x.expect_refused(r, "publish_* while play is requested"); }
        x.expect_media_in(5, true, &[0, 1, 2], "while play is requested"); x.expect_media_in(6, false, &[0, 1, 2], "(not the active stream 5)");
        let r = x.on_status("NetStream.Play.Start", 5); if r.err.is_some() || !r.out.is_empty() || r.ev != vec![ClientSessionEvent::PlaybackRequestAccepted] { x.bad(format!("onStatus(NetStream.Play.Start): expected exactly the accepted event, got {}", r.show())); }
        let r = x.on_status("NetStream.Something.Else", 5); if r.ev != vec![(ClientSessionEvent::UnhandleableOnStatusCode { code: "NetStream.Something.Else".to_string() })] || !r.out.is_empty() { x.bad(format!("onStatus with an unknown code: {}", r.show())); }
        x.expect_media_in(5, true, &[0, 1, 2], "while playing"); x.expect_media_in(6, false, &[0, 1, 2], "(not the active stream 5)"); x.expect_media_in(0, false, &[0, 1, 2], "(not the active stream 5)");
        for ts in [0u32, 0xFFFFFF, 0x1000000, 0xFFFFFFFF] { x.expect_pong(ts); }
        let r = x.stop_pub(); x.expect_nothing(r, "stop_publishing while playing");
        x.expect_media_in(5, true, &[0], "after a refused stop_publishing");
        let r = x.stop_play(); x.expect_delete(&r, 5, "stop_playback");
        x.expect_media_in(5, false, &[2, 0, 1, 2], "after stop_playback"); x.expect_media_in(6, false, &[2], "after stop_playback");
        let r = x.stop_play(); x.expect_nothing(r, "a second stop_playback");
        let r = x.on_status("NetStream.Play.Start", 5); if !r.silent() { x.bad(format!("onStatus(NetStream.Play.Start) after stop_playback must not be applied, got {}", r.show())); }
        x.expect_media_in(5, false, &[0, 2], "after stop_playback and a late Play.Start");
        // back to connected and idle: publishing may be requested now
        let r = x.req_pub("pk"); let (t3, _, _) = x.expect_cmd(&r, "createStream", &[0], "request_publishing after stop_playback"); x.fresh_tx(t3, &mut used, "createStream");
        let r = x.result(t3, &[A::N(7.0)]); let (_, args, _) = x.expect_cmd(&r, "publish", &[7], "createStream result");
        if !matches!((args.get(0), args.get(1)), (Some(Amf0Value::Utf8String(k)), Some(Amf0Value::Utf8String(m))) if k == "pk" && m == "live") { x.bad(format!("publish command arguments: {}", r.show())); }
        for k in 0..3 { let (r, _, _) = x.pub_media(k); x.expect_refused(r, "publish_* while publishing is only requested"); }
        let r = x.on_status("NetStream.Play.Start", 7); if !r.silent() { x.bad(format!("onStatus(NetStream.Play.Start) while publish is requested must not be applied, got {}", r.show())); }
        x.expect_media_in(7, false, &[0, 1, 2], "while publish is requested");
        let r = x.on_status("NetStream.Publish.Start", 7); if r.err.is_some() || !r.out.is_empty() || r.ev != vec![ClientSessionEvent::PublishRequestAccepted] { x.bad(format!("onStatus(NetStream.Publish.Start): expected exactly the accepted event, got {}", r.show())); }
        for k in 0..3u8 {
            let (r, d, _) = x.pub_media(k);
            let ok = r.err.is_none() && r.ev.is_empty() && r.out.len() == 1 && r.out[0].msid == 7 && match (&r.out[0].msg, k) { (RtmpMessage::AudioData { data }, 0) | (RtmpMessage::VideoData { data }, 1) => data[..] == d[..], (RtmpMessage::Amf0Data { values }, 2) => matches!(values.get(0), Some(Amf0Value::Utf8String(n)) if n == "@setDataFrame"), _ => false };
            if !ok { x.bad(format!("publish_{} while publishing: expected one matching message on stream 7, got {}", ["audio_data", "video_data", "metadata"][k as usize], r.show())); }
        }
        x.expect_media_in(7, false, &[0, 1, 2], "while publishing (play neither requested nor running)"); x.expect_media_in(8, false, &[0, 1, 2], "while publishing");
        let r = x.req_play("k"); x.expect_refused(r, "request_playback while publishing"); let r = x.req_pub("k"); x.expect_refused(r, "request_publishing while publishing");
        let r = x.stop_play(); x.expect_nothing(r, "stop_playback while publishing");
        let (r, _, _) = x.pub_media(1); if r.err.is_some() || r.out.len() != 1 { x.bad(format!("publish_video_data after a refused stop_playback: {}", r.show())); }
        x.expect_pong(99);
        let r = x.stop_pub(); x.expect_delete(&r, 7, "stop_publishing");
        for k in 0..3 { let (r, _, _) = x.pub_media(k); x.expect_refused(r, "publish_* after stop_publishing"); }
        x.expect_media_in(7, false, &[0, 1, 2], "after stop_publishing");
        let r = x.stop_pub(); x.expect_nothing(r, "a second stop_publishing");
        let r = x.req_play("again"); let (t4, _, _) = x.expect_cmd(&r, "createStream", &[0], "request_playback after stop_publishing"); x.fresh_tx(t4, &mut used, "createStream");
    }
}
// pseudo-random histories against a model of the statement.  Not generated (the statement does not settle them): a second
// request while a connect / createStream is still unanswered.
#[derive(Clone, Debug, PartialEq)]
enum M { Disc, ConnPending(f64), Connected, CreatePending(f64, bool, String), PlayReq(u32), Playing(u32), PubReq(u32), Publishing(u32) }
fn c10_walk(rng: &mut Rng, steps: usize) {
    let mut x = Cli::new(); let mut m = M::Disc; let mut used: Vec<f64> = vec![]; let mut dead: Vec<f64> = vec![]; let mut n = 0u32;
    for _ in 0..steps {
        n += 1;
        let playing = match m { M::PlayReq(s) | M::Playing(s) => Some(s), _ => None };
        if debug() { stat(&format!("c10 steps in state {}", format!("{:?}", m).split('(').next().unwrap_or(""))); }
        match rng.below(16) {
            0 => match m { M::Disc => { let r = x.req_conn("live"); let (tx, _, _) = x.expect_cmd(&r, "connect", &[0], "request_connection"); x.fresh_tx(tx, &mut used, "connect"); m = M::ConnPending(tx); }
                           M::ConnPending(_) => (), _ => { let r = x.req_conn("live"); x.expect_refused(r, &format!("request_connection in state {:?}", m)); } },
            1 | 2 => { let play = rng.below(2) == 0; let key = format!("k{}", n);
                match m { M::Connected => { let r = if play { x.req_play(&key) } else { x.req_pub(&key) }; let (tx, _, _) = x.expect_cmd(&r, "createStream", &[0], "request_playback/publishing"); x.fresh_tx(tx, &mut used, "createStream"); m = M::CreatePending(tx, play, key); }
                          M::CreatePending(..) => (), _ => { let r = if play { x.req_play(&key) } else { x.req_pub(&key) }; x.expect_refused(r, &format!("request_{} in state {:?}", if play { "playback" } else { "publishing" }, m)); } } }
            3 => { let k = rng.below(3) as u8; let (r, d, _) = x.pub_media(k);
                match m { M::Publishing(sid) => { let ok = r.err.is_none() && r.ev.is_empty() && r.out.len() == 1 && r.out[0].msid == sid && match (&r.out[0].msg, k) { (RtmpMessage::AudioData { data }, 0) | (RtmpMessage::VideoData { data }, 1) => data[..] == d[..], (RtmpMessage::Amf0Data { .. }, 2) => true, _ => false };
                                                  if !ok { x.bad(format!("publish_* (kind {}) while publishing on stream {}: got {}", k, sid, r.show())); } }
                          _ => x.expect_refused(r, &format!("publish_* in state {:?}", m)) } }
            4 => { let r = x.stop_play(); match m { M::PlayReq(s) | M::Playing(s) => { x.expect_delete(&r, s, "stop_playback"); m = M::Connected; } _ => x.expect_nothing(r, &format!("stop_playback in state {:?}", m)) } }
            5 => { let r = x.stop_pub(); match m { M::PubReq(s) | M::Publishing(s) => { x.expect_delete(&r, s, "stop_publishing"); m = M::Connected; } _ => x.expect_nothing(r, &format!("stop_publishing in state {:?}", m)) } }
            6 | 7 => match m.clone() {   // the answer the session is waiting for
                M::ConnPending(tx) => if rng.below(3) != 0 { let r = x.result(tx, &[]); if r.err.is_some() || r.ev != vec![ClientSessionEvent::ConnectionRequestAccepted] || r.out.iter().any(|o| o.ty == 20) { x.bad(format!("connect result: {}", r.show())); } m = M::Connected; dead.push(tx); }
                                      else { let r = x.error(tx, "no"); if r.err.is_some() || !r.out.is_empty() || r.ev != vec![(ClientSessionEvent::ConnectionRequestRejected { description: "no".to_string() })] { x.bad(format!("connect _error: {}", r.show())); } m = M::Disc; dead.push(tx); },
                M::CreatePending(tx, play, key) => if rng.below(4) != 0 {
                        let sid = 1 + rng.below(6) as u32; let r = x.result(tx, &[A::N(sid as f64)]);
                        let (_, args, _) = x.expect_cmd(&r, if play { "play" } else { "publish" }, &[sid], "createStream result");
                        if !r.ev.is_empty() || !matches!(args.get(0), Some(Amf0Value::Utf8String(k)) if *k == key) { x.bad(format!("createStream result: expected a command for key {} on stream {}, got {}", key, sid, r.show())); }
                        m = if play { M::PlayReq(sid) } else { M::PubReq(sid) }; dead.push(tx);
                    } else { let r = x.error(tx, "no"); if !r.silent() { x.bad(format!("createStream _error: nothing may be emitted, got {}", r.show())); } m = M::Connected; dead.push(tx); },
                M::PlayReq(s) => { let r = x.on_status("NetStream.Play.Start", s); if r.err.is_some() || !r.out.is_empty() || r.ev != vec![ClientSessionEvent::PlaybackRequestAccepted] { x.bad(format!("onStatus(Play.Start) while play is requested: {}", r.show())); } m = M::Playing(s); }
                M::PubReq(s) => { let r = x.on_status("NetStream.Publish.Start", s); if r.err.is_some() || !r.out.is_empty() || r.ev != vec![ClientSessionEvent::PublishRequestAccepted] { x.bad(format!("onStatus(Publish.Start) while publish is requested: {}", r.show())); } m = M::Publishing(s); }
                _ => (),
            },
            8 | 9 => {   // an answer nobody is waiting for: stale, duplicate or forged transaction id
                let tx = if !dead.is_empty() && rng.below(3) != 0 { rng.pick(&dead) } else { 500.0 + rng.below(5) as f64 };
                let r = if rng.below(2) == 0 { x.result(tx, &[A::N(1.0 + rng.below(6) as f64)]) } else { x.error(tx, "late") };
                x.expect_unknown_tx(&r, tx, &format!("an answer for transaction {} in state {:?} (answered before: {:?})", tx, m, dead));
            }
            10 => {   // start status in a state that does not wait for it
                let (code, waits) = if rng.below(2) == 0 { ("NetStream.Play.Start", matches!(m, M::PlayReq(_))) } else { ("NetStream.Publish.Start", matches!(m, M::PubReq(_))) };
                if !waits { let r = x.on_status(code, 1); if !r.silent() { x.bad(format!("onStatus({}) in state {:?} must not be applied, got {}", code, m, r.show())); } }
            }
            11 | 12 | 13 => {
                let sid = 1 + rng.below(7) as u32; let kind = rng.below(3) as u8;
                if playing == Some(sid) { stat("c10 media on the active stream while play requested/running"); }
                x.expect_media_in(sid, playing == Some(sid), &[kind], &format!("in state {:?}", m));
            }
            14 => x.expect_pong(rng.pick(&[0u32, 1, 0xFFFFFF, 0x1000000, 0xFFFFFFFF, 31337])),
            _ => { let b = x.p.ack(n); let r = x.feed("acknowledgement", b); if r.err.is_some() || !r.out.is_empty() || r.ev != vec![(ClientSessionEvent::AcknowledgementReceived { bytes_received: n })] { x.bad(format!("acknowledgement({}): {}", n, r.show())); } }
        }
    }
}
fn c10_strict() {
    let mut y = Cli::new();
    let r = y.req_conn("live"); let (t, _, _) = y.expect_cmd(&r, "connect", &[0], "request_connection");
    let r = y.result(t + 0.5, &[]); y.expect_unknown_tx(&r, t + 0.5, &format!("[strict] _result for transaction id {} (never used; the pending connect is {})", t + 0.5, t));
}
// several transactions outstanding at once (the single-transaction model of c10_walk never has two): each answer advances
// exactly the transaction it answers, and the state gates requests and media whatever order the answers arrive in
fn c10_multi() {
    // two connect requests outstanding, one accepted, the other rejected afterwards: the session stays connected
    for first_wins in [true, false] {
        let mut x = Cli::new();
        let r = x.req_conn("a"); let (t1, _, _) = x.expect_cmd(&r, "connect", &[0], "request_connection(a)");
        let r = x.req_conn("b"); let (t2, _, _) = x.expect_cmd(&r, "connect", &[0], "second request_connection(b) while the first is unanswered");
        if t1 == t2 { x.bad(format!("two outstanding connect requests share transaction id {}", t1)); }
        let (win, lose) = if first_wins { (t1, t2) } else { (t2, t1) };
        let r = x.result(win, &[]); if r.err.is_some() || r.ev != vec![ClientSessionEvent::ConnectionRequestAccepted] { x.bad(format!("connect result for transaction {}: {}", win, r.show())); }
        let r = x.error(lose, "no"); if r.err.is_some() || !r.out.is_empty() { x.bad(format!("_error for the other connect transaction {}: nothing may be emitted, got {}", lose, r.show())); }
        let r = x.req_conn("c"); x.expect_refused(r, "request_connection while connected (after the other outstanding connect was rejected)");
        let r = x.req_play("k"); let _ = x.expect_cmd(&r, "createStream", &[0], "request_playback while connected (after the other outstanding connect was rejected)");
    }
    // publish and play requested back to back; the publish workflow completes, THEN the second createStream result arrives:
    // the session is no longer publishing, so publish_* must be refused (and media for the new active stream is raised)
    {
        let mut x = Cli::new();
        let r = x.req_conn("live"); let (t, _, _) = x.expect_cmd(&r, "connect", &[0], "request_connection"); let _ = x.result(t, &[]);
        let r = x.req_pub("k1"); let (ta, _, _) = x.expect_cmd(&r, "createStream", &[0], "request_publishing");
        let r = x.req_play("k2"); let (tb, _, _) = x.expect_cmd(&r, "createStream", &[0], "request_playback right after request_publishing");
        let r = x.result(ta, &[A::N(1.0)]); let _ = x.expect_cmd(&r, "publish", &[1], "createStream result for the publish request");
        let r = x.on_status("NetStream.Publish.Start", 1); if r.err.is_some() || r.ev != vec![ClientSessionEvent::PublishRequestAccepted] { x.bad(format!("onStatus(Publish.Start): {}", r.show())); }
        let (r, _, _) = x.pub_media(1); if r.err.is_some() || r.out.len() != 1 || r.out[0].msid != 1 { x.bad(format!("publish_video_data while publishing on stream 1: {}", r.show())); }
        let r = x.result(tb, &[A::N(2.0)]); let _ = x.expect_cmd(&r, "play", &[2], "createStream result for the play request (arriving while publishing)");
        for k in 0..3u8 { let (r, _, _) = x.pub_media(k); x.expect_refused(r, &format!("publish_* (kind {}) while playback is requested (the session left Publishing when the play command went out)", k)); }
        x.expect_media_in(2, true, &[0, 1], "while playback is requested on stream 2");
        x.expect_media_in(1, false, &[0, 1], "for the former publish stream 1 while playback is requested on stream 2");
    }
    // a late connect `_result` while publishing must not re-open the media gate for anything else
    {
        let mut x = Cli::new();
        let r = x.req_conn("a"); let (t1, _, _) = x.expect_cmd(&r, "connect", &[0], "request_connection(a)");
        let r = x.req_conn("b"); let (t2, _, _) = x.expect_cmd(&r, "connect", &[0], "second request_connection(b)");
        let _ = x.result(t1, &[]);
        let r = x.req_play("k"); let (tc, _, _) = x.expect_cmd(&r, "createStream", &[0], "request_playback");
        let r = x.result(tc, &[A::N(3.0)]); let _ = x.expect_cmd(&r, "play", &[3], "createStream result");
        let _ = x.result(t2, &[]);      // the second connect is answered late: back to Connected
        for k in 0..3u8 { let (r, _, _) = x.pub_media(k); x.expect_refused(r, &format!("publish_* (kind {}) after a late connect result", k)); }
    }
}
fn mode_c10(seed: u64) {
    c10_scripted();
    c10_multi();
    if strict() { c10_strict(); }
    let mut rng = Rng(seed ^ 0xC10C10);
    for _ in 0..3000 { c10_walk(&mut rng, 80); }
}


// ================================================================ C02: a REAL ClientSession and a REAL ServerSession exchanging their output bytes
// Each direction is a byte queue.  A scheduler (everything queued at once / byte by byte / seeded random pieces of 1, 7, ... bytes in a
// random direction) delivers pieces until nothing but Acknowledgement packets is left queued (those wait for the next real bytes: with
// a window of 1 on both sides acknowledgements answer acknowledgements for ever, that is the protocol and not a finding).  When a window
// below 100 is configured, a run of queued Acknowledgement packets is delivered in one call (otherwise acknowledgements of 1-byte
// deliveries multiply without bound); all other bytes, and all acknowledgements for larger windows, are fragmented like anything else.
// The server application accepts every request right after the call that raised it.
#[derive(Clone, Debug)]
enum It { Meta(StreamMetadata), Audio(u32, usize, bool), Video(u32, usize, bool), Ping, PingBack }
#[derive(Clone, Copy, PartialEq, Debug)]
enum Sched { Whole, Bytewise, Random }
struct Seg { b: Vec<u8>, pos: usize, ack: bool }
struct Queue { segs: std::collections::VecDeque<Seg>, obs: OutDec, real: usize, bytes: usize }
impl Queue {
    fn new() -> Queue { Queue { segs: std::collections::VecDeque::new(), obs: OutDec::new(), real: 0, bytes: 0 } }
    fn push(&mut self, pk: Vec<u8>) {
        let ack = match self.obs.feed(&pk) { Ok(v) => !v.is_empty() && v.iter().all(|o| o.is_ack()), Err(_) => false };
        if pk.is_empty() { return; }
        self.bytes += pk.len();
        if ack { if let Some(l) = self.segs.back_mut() { if l.ack { l.b.extend_from_slice(&pk); return; } } } else { self.real += 1; }
        self.segs.push_back(Seg { b: pk, pos: 0, ack });
    }
    fn real_pending(&self) -> bool { self.real > 0 }
    fn total(&self) -> usize { self.bytes }
    fn ack_prefix(&self) -> usize { self.segs.iter().take_while(|s| s.ack).map(|s| s.b.len() - s.pos).sum() }
    fn take(&mut self, mut n: usize) -> Vec<u8> {
        let mut out = Vec::with_capacity(n);
        while n > 0 {
            let done = { let s = match self.segs.front_mut() { Some(s) => s, None => break }; let k = std::cmp::min(n, s.b.len() - s.pos); out.extend_from_slice(&s.b[s.pos..s.pos + k]); s.pos += k; n -= k; s.pos == s.b.len() };
            if done { if let Some(s) = self.segs.pop_front() { if !s.ack { self.real -= 1; } } }
        }
        self.bytes -= out.len();
        out
    }
}
struct Pair { cli: ClientSession, srv: ServerSession, to_srv: Queue, to_cli: Queue, cev: Vec<ClientSessionEvent>, sev: Vec<ServerSessionEvent>, desc: String, sched: Sched, rng: Rng, tiny: bool, calls: u64, conn_seen: u32, reject_later_connects: bool, turn: bool, eager: Option<Eager> }
// the EAGER application: no settling between phases, each side acts on an event in the turn it is raised (the client requests publish /
// play the moment it sees the connection accepted, i.e. right behind the WindowAcknowledgement + SetChunkSize it has just queued; it sends
// all items and the stop the moment publishing is accepted; the server sends all items the moment it has accepted the play request; the
// client stops playback the moment the last item has arrived), and `connect` is sent before the server's start-up bytes were read
struct Eager { publish: Option<u8>, key: String, items: Vec<It>, requested: bool, sent: bool, stopped: bool }
impl Pair {
    fn send_item(&mut self, i: usize, it: &It, publishing: bool, play_stream: u32) {
        match it {
            It::Meta(m) => {
                if publishing { let cli = &mut self.cli; let r = guard("publish_metadata", || cli.publish_metadata(m).map(|x| vec![x])); self.c_out("publish_metadata", r); }
                else { let srv = &mut self.srv; let r = guard("send_metadata", || srv.send_metadata(play_stream, m).map(|pk| vec![ServerSessionResult::OutboundResponse(pk)]).map_err(|e| format!("{}", e))); self.s_out("send_metadata", r); } }
            It::Audio(ts, len, dr) | It::Video(ts, len, dr) => {
                let video = matches!(it, It::Video(..)); let d = payload(*len, i as u8);
                let (ts, dr) = (*ts, *dr);
                if publishing { let cli = &mut self.cli; let r = guard("publish_*_data", || if video { cli.publish_video_data(Bytes::from(d), RtmpTimestamp::new(ts), dr) } else { cli.publish_audio_data(Bytes::from(d), RtmpTimestamp::new(ts), dr) }.map(|x| vec![x])); self.c_out(if video { "publish_video_data" } else { "publish_audio_data" }, r); }
                else { let srv = &mut self.srv; let r = guard("send_*_data", || if video { srv.send_video_data(play_stream, Bytes::from(d), RtmpTimestamp::new(ts), dr) } else { srv.send_audio_data(play_stream, Bytes::from(d), RtmpTimestamp::new(ts), dr) }.map(|pk| vec![ServerSessionResult::OutboundResponse(pk)]).map_err(|e| format!("{}", e))); self.s_out(if video { "send_video_data" } else { "send_audio_data" }, r); }
            }
            It::Ping | It::PingBack => {
                if matches!(it, It::Ping) == publishing { let cli = &mut self.cli; let r = guard("send_ping_request", || cli.send_ping_request().map(|t| vec![ClientSessionResult::OutboundResponse(t.0)])); self.c_out("send_ping_request", r); }
                else { let srv = &mut self.srv; let r = guard("send_ping_request", || srv.send_ping_request().map(|t| vec![ServerSessionResult::OutboundResponse(t.0)]).map_err(|e| format!("{}", e))); self.s_out("send_ping_request", r); }
            }
        }
    }
    fn request_stream(&mut self, publish: Option<u8>, key: String) {
        let cli = &mut self.cli;
        let r = match publish { Some(m) => guard("request_publishing", || cli.request_publishing(key, match m { 0 => PublishRequestType::Live, 1 => PublishRequestType::Record, _ => PublishRequestType::Append }).map(|x| vec![x])), None => guard("request_playback", || cli.request_playback(key).map(|x| vec![x])) };
        self.c_out(if publish.is_some() { "request_publishing" } else { "request_playback" }, r);
    }
    fn stop(&mut self, publishing: bool) { let cli = &mut self.cli; let r = if publishing { guard("stop_publishing", || cli.stop_publishing()) } else { guard("stop_playback", || cli.stop_playback()) }; self.c_out("stop", r); }
    // the eager client application looks at the events of the call that just returned
    fn react_client(&mut self, from: usize) {
        let (mut accepted, mut pub_ok) = (false, false);
        for e in &self.cev[from..] { match e { ClientSessionEvent::ConnectionRequestAccepted => accepted = true, ClientSessionEvent::PublishRequestAccepted => pub_ok = true, _ => () } }
        let (publish, key, do_request, do_send, do_stop_play) = match &mut self.eager { None => return, Some(g) => {
            let media_seen = self.cev.iter().filter(|e| matches!(e, ClientSessionEvent::AudioDataReceived { .. } | ClientSessionEvent::VideoDataReceived { .. } | ClientSessionEvent::StreamMetadataReceived { .. })).count();
            let n_media = g.items.iter().filter(|i| !matches!(i, It::Ping | It::PingBack)).count();
            let rq = accepted && !g.requested; if rq { g.requested = true; }
            let sd = pub_ok && g.publish.is_some() && !g.sent; if sd { g.sent = true; }
            let st = g.publish.is_none() && g.sent && !g.stopped && media_seen >= n_media; if st { g.stopped = true; }
            (g.publish, g.key.clone(), rq, sd, st) } };
        if do_request { self.request_stream(publish, key); }
        if do_send { let items = self.eager.as_ref().map(|g| g.items.clone()).unwrap_or_default(); for (i, it) in items.iter().enumerate() { self.send_item(i, it, true, 0); } self.stop(true); if let Some(g) = &mut self.eager { g.stopped = true; } }
        if do_stop_play { self.stop(false); }
    }
    fn react_server_play(&mut self, stream_id: u32) {
        let items = match &mut self.eager { Some(g) if g.publish.is_none() && !g.sent => { g.sent = true; g.items.clone() } _ => return };
        for (i, it) in items.iter().enumerate() { self.send_item(i, it, false, stream_id); }
    }
    fn fail(&self, what: String) -> ! { witness(format!("[c02] {}: {} (after {} input calls)", self.desc, what, self.calls)) }
    fn c_out<E: std::fmt::Display>(&mut self, what: &str, r: Result<Result<Vec<ClientSessionResult>, E>, String>) {
        match r { Err(e) => self.fail(format!("client {}: {}", what, e)), Ok(Err(e)) => self.fail(format!("client {} failed: {}", what, e)),
            Ok(Ok(rs)) => { let from = self.cev.len(); for r in rs { match r { ClientSessionResult::OutboundResponse(p) => self.to_srv.push(p.bytes), ClientSessionResult::RaisedEvent(e) => self.cev.push(e), _ => () } } if self.eager.is_some() && self.cev.len() > from { self.react_client(from); } } }
    }
    fn s_out(&mut self, what: &str, r: Result<Result<Vec<ServerSessionResult>, String>, String>) {
        let rs = match r { Err(e) => self.fail(format!("server {}: {}", what, e)), Ok(Err(e)) => self.fail(format!("server {} failed: {}", what, e)), Ok(Ok(rs)) => rs };
        let mut reqs = vec![];
        for r in rs { match r { ServerSessionResult::OutboundResponse(p) => self.to_cli.push(p.bytes), ServerSessionResult::RaisedEvent(e) => { if let Some(id) = sreq_id(&e) { reqs.push((id, matches!(e, ServerSessionEvent::ConnectionRequested { .. }), if let ServerSessionEvent::PlayStreamRequested { stream_id, .. } = &e { Some(*stream_id) } else { None })); } self.sev.push(e); } _ => () } }
        for (id, is_conn, play_sid) in reqs {
            let accept = if is_conn { self.conn_seen += 1; !(self.reject_later_connects && self.conn_seen > 1) } else { true };
            let srv = &mut self.srv;
            let r = if accept { guard("accept_request", || srv.accept_request(id).map_err(|e| format!("{}", e))) } else { guard("reject_request", || srv.reject_request(id, "NetConnection.Connect.Rejected", "only one connection").map_err(|e| format!("{}", e))) };
            self.s_out(if accept { "accept_request" } else { "reject_request" }, r);
            if let Some(sid) = play_sid { self.react_server_play(sid); }
        }
    }
    fn deliver(&mut self, to_server: bool) {
        let q = if to_server { &mut self.to_srv } else { &mut self.to_cli };
        let total = q.total(); if total == 0 { return; }
        let pre = q.ack_prefix();
        let n = if self.tiny && pre > 0 { pre } else { match self.sched { Sched::Whole => total, Sched::Bytewise => 1,
            Sched::Random => match self.rng.below(6) { 0 => 1, 1 => 7, 2 => 1 + self.rng.below(64) as usize, 3 => total, _ => 1 + self.rng.below(total as u64) as usize } } };
        let b = q.take(std::cmp::min(n, total));
        self.calls += 1;
        ctx(format!("c02 {}: input call #{} ({} bytes to the {})", self.desc, self.calls, b.len(), if to_server { "server" } else { "client" }));
        if to_server { let srv = &mut self.srv; let r = guard("ServerSession::handle_input", || srv.handle_input(&b).map_err(|e| format!("{}", e))); self.s_out(&format!("handle_input({} bytes)", b.len()), r); }
        else { let cli = &mut self.cli; let r = guard("ClientSession::handle_input", || cli.handle_input(&b)); self.c_out(&format!("handle_input({} bytes)", b.len()), r); }
    }
    // one scheduler step; false if only acknowledgements (or nothing) are queued
    fn step(&mut self) -> bool {
        let (a, b) = (self.to_srv.real_pending(), self.to_cli.real_pending());
        if !a && !b { return false; }
        let dir = if a && b { if self.sched == Sched::Random { self.rng.below(2) == 0 } else { self.turn = !self.turn; self.turn } } else { a };
        self.deliver(dir); true
    }
    fn settle(&mut self) { let mut n = 0u64; while self.step() { n += 1; if n > 20_000_000 { self.fail("the exchange does not come to rest".into()); } } }
}
// compact, complete and injective enough for comparison: every field, the encoder string by length, checksum and a short prefix
fn meta_eq_desc(m: &StreamMetadata) -> String {
    fn o<T: std::fmt::Debug>(v: &Option<T>) -> String { match v { Some(x) => format!("{:?}", x), None => "-".to_string() } }
    format!("{{width {} height {} videocodecid {} framerate {} videodatarate {} audiocodecid {} audiodatarate {} audiosamplerate {} audiochannels {} stereo {} encoder {}}}", o(&m.video_width), o(&m.video_height), o(&m.video_codec_id), o(&m.video_frame_rate),
        o(&m.video_bitrate_kbps), o(&m.audio_codec_id), o(&m.audio_bitrate_kbps), o(&m.audio_sample_rate), o(&m.audio_channels), o(&m.audio_is_stereo),
        match &m.encoder { Some(e) => format!("({} bytes, sum {:x}) {:?}", e.len(), sum(e.as_bytes()), e.chars().take(24).collect::<String>()), None => "-".to_string() })
}
struct Scn { app: &'static str, expect_app: &'static str, key: &'static str, publish: Option<u8>, items: Vec<It>, ccs: u32, scs: u32, cw: u32, sw: u32, sched: Sched, seed: u64, double_connect: bool, drip: bool, eager: bool, name: String }
fn c02_run(s: &Scn) {
    let desc = format!("{} [{} app {:?} key {:?}{}; client chunk size {} window {}, server chunk size {} window {}; delivery {:?} seed {}{}]", s.name, match s.publish { Some(0) => "publish live", Some(1) => "publish record", Some(_) => "publish append", None => "play" }, s.app, s.key,
        if s.double_connect { "; a second connect(\"other\") is sent before any answer and rejected by the server application" } else { "" }, s.ccs, s.cw, s.scs, s.sw, s.sched, s.seed, if s.eager { ", EAGER applications: connect is sent before the start-up bytes are read, every reaction is queued in the turn its event is raised, nothing settles in between" } else if s.drip { ", items interleaved with deliveries" } else { "" });
    ctx(format!("c02 {}", desc));
    let mut ccfg = ClientSessionConfig::new(); ccfg.chunk_size = s.ccs; ccfg.window_ack_size = s.cw;
    let mut scfg = ServerSessionConfig::new(); scfg.chunk_size = s.scs; scfg.window_ack_size = s.sw;
    let (srv, sinit) = match guard("ServerSession::new", || ServerSession::new(scfg)) { Ok(Ok(x)) => x, Ok(Err(e)) => witness(format!("[c02] {}: ServerSession::new failed: {}", desc, e)), Err(e) => witness(format!("[c02] {}: {}", desc, e)) };
    let (cli, cinit) = match guard("ClientSession::new", || ClientSession::new(ccfg)) { Ok(Ok(x)) => x, Ok(Err(e)) => witness(format!("[c02] {}: ClientSession::new failed: {}", desc, e)), Err(e) => witness(format!("[c02] {}: {}", desc, e)) };
    let mut p = Pair { cli, srv, to_srv: Queue::new(), to_cli: Queue::new(), cev: vec![], sev: vec![], desc, sched: s.sched, rng: Rng(s.seed ^ 0xC02C02), tiny: std::cmp::min(s.cw, s.sw) < 100, calls: 0, conn_seen: 0, reject_later_connects: s.double_connect, turn: false, eager: if s.eager { Some(Eager { publish: s.publish, key: s.key.to_string(), items: s.items.clone(), requested: false, sent: false, stopped: false }) } else { None } };
    p.s_out("constructor", Ok(Ok(sinit))); p.c_out::<String>("constructor", Ok(Ok(cinit)));
    // ---- connect
    { let cli = &mut p.cli; let app = s.app.to_string(); let r = guard("request_connection", || cli.request_connection(app).map(|x| vec![x])); p.c_out("request_connection", r); }
    if s.double_connect { let cli = &mut p.cli; let r = guard("request_connection", || cli.request_connection("other".to_string()).map(|x| vec![x])); p.c_out("second request_connection (first one still unanswered)", r); }
    p.settle();
    let n_acc = p.cev.iter().filter(|e| **e == ClientSessionEvent::ConnectionRequestAccepted).count();
    let conn: Vec<String> = p.sev.iter().filter_map(|e| if let ServerSessionEvent::ConnectionRequested { app_name, .. } = e { Some(app_name.clone()) } else { None }).collect();
    let want_conn: Vec<String> = if s.double_connect { vec![s.expect_app.to_string(), "other".to_string()] } else { vec![s.expect_app.to_string()] };
    if conn != want_conn { p.fail(format!("connect: the server raised connection requests for {:?}, expected {:?}", conn, want_conn)); }
    if n_acc != 1 { p.fail(format!("connect: the client raised {} ConnectionRequestAccepted events, expected exactly one; client events: {:?}", n_acc, p.cev.iter().map(|e| trunc(&cev(e), 80)).collect::<Vec<_>>())); }
    if s.double_connect && p.cev.iter().filter(|e| matches!(e, ClientSessionEvent::ConnectionRequestRejected { .. })).count() != 1 { p.fail("the rejected second connect was not reported to the client exactly once".into()); }
    // ---- publish or play
    if !s.eager { p.request_stream(s.publish, s.key.to_string()); }
    p.settle();
    let mut play_stream: u32 = 0;
    match s.publish {
        Some(m) => {
            let want_mode = match m { 0 => PublishMode::Live, 1 => PublishMode::Record, _ => PublishMode::Append };
            let reqs: Vec<&ServerSessionEvent> = p.sev.iter().filter(|e| matches!(e, ServerSessionEvent::PublishStreamRequested { .. } | ServerSessionEvent::PlayStreamRequested { .. })).collect();
            let ok = reqs.len() == 1 && matches!(reqs[0], ServerSessionEvent::PublishStreamRequested { app_name, stream_key, mode, .. } if app_name == s.expect_app && stream_key == s.key && *mode == want_mode);
            if !ok { p.fail(format!("publish: the server raised {:?}, expected exactly one PublishStreamRequested(app {:?}, key {:?}, mode {:?})", reqs.iter().map(|e| sev(e)).collect::<Vec<_>>(), s.expect_app, s.key, want_mode)); }
            let n = p.cev.iter().filter(|e| **e == ClientSessionEvent::PublishRequestAccepted).count();
            if n != 1 { p.fail(format!("publish: the client raised {} PublishRequestAccepted events, expected exactly one; client events: {:?}", n, p.cev.iter().map(|e| trunc(&cev(e), 80)).collect::<Vec<_>>())); }
        }
        None => {
            let reqs: Vec<&ServerSessionEvent> = p.sev.iter().filter(|e| matches!(e, ServerSessionEvent::PublishStreamRequested { .. } | ServerSessionEvent::PlayStreamRequested { .. })).collect();
            let ok = reqs.len() == 1 && matches!(reqs[0], ServerSessionEvent::PlayStreamRequested { app_name, stream_key, .. } if app_name == s.expect_app && stream_key == s.key);
            if !ok { p.fail(format!("play: the server raised {:?}, expected exactly one PlayStreamRequested(app {:?}, key {:?})", reqs.iter().map(|e| sev(e)).collect::<Vec<_>>(), s.expect_app, s.key)); }
            if let ServerSessionEvent::PlayStreamRequested { stream_id, .. } = reqs[0] { play_stream = *stream_id; }
            let n = p.cev.iter().filter(|e| **e == ClientSessionEvent::PlaybackRequestAccepted).count();
            if n != 1 { p.fail(format!("play: the client raised {} PlaybackRequestAccepted events, expected exactly one; client events: {:?}", n, p.cev.iter().map(|e| trunc(&cev(e), 80)).collect::<Vec<_>>())); }
        }
    }
    // ---- media: client -> server while publishing, server -> client while the client plays
    let mut want: Vec<String> = vec![];
    for (i, it) in s.items.iter().enumerate() { match it {
        It::Meta(m) => want.push(format!("metadata {}", meta_eq_desc(m))),
        It::Audio(ts, len, _) | It::Video(ts, len, _) => want.push(format!("{} ts={} len={} sum={:x}", if matches!(it, It::Video(..)) { "video" } else { "audio" }, ts, len, sum(&payload(*len, i as u8)))),
        _ => () } }
    if !s.eager { for (i, it) in s.items.iter().enumerate() {
        p.send_item(i, it, s.publish.is_some(), play_stream);
        if s.drip { for _ in 0..p.rng.below(4) { if !p.step() { break; } } }
    } }
    p.settle();
    let got = |p: &Pair| -> Vec<String> {
        if s.publish.is_some() { p.sev.iter().filter_map(|e| match e {
            ServerSessionEvent::StreamMetadataChanged { app_name, stream_key, metadata } => Some(format!("metadata {}{}", meta_eq_desc(metadata), if app_name == s.expect_app && stream_key == s.key { String::new() } else { format!(" TAGGED app {:?} key {:?}", app_name, stream_key) })),
            ServerSessionEvent::AudioDataReceived { app_name, stream_key, data, timestamp } => Some(format!("audio ts={} len={} sum={:x}{}", timestamp.value, data.len(), sum(data), if app_name == s.expect_app && stream_key == s.key { String::new() } else { format!(" TAGGED app {:?} key {:?}", app_name, stream_key) })),
            ServerSessionEvent::VideoDataReceived { app_name, stream_key, data, timestamp } => Some(format!("video ts={} len={} sum={:x}{}", timestamp.value, data.len(), sum(data), if app_name == s.expect_app && stream_key == s.key { String::new() } else { format!(" TAGGED app {:?} key {:?}", app_name, stream_key) })),
            _ => None }).collect() }
        else { p.cev.iter().filter_map(|e| match e {
            ClientSessionEvent::StreamMetadataReceived { metadata } => Some(format!("metadata {}", meta_eq_desc(metadata))),
            ClientSessionEvent::AudioDataReceived { data, timestamp } => Some(format!("audio ts={} len={} sum={:x}", timestamp.value, data.len(), sum(data))),
            ClientSessionEvent::VideoDataReceived { data, timestamp } => Some(format!("video ts={} len={} sum={:x}", timestamp.value, data.len(), sum(data))),
            _ => None }).collect() }
    };
    let check_media = |p: &Pair, when: &str| {
        let g = got(p);
        if g != want {
            let i = (0..std::cmp::max(g.len(), want.len())).find(|&i| g.get(i) != want.get(i)).unwrap_or(0);
            p.fail(format!("{}: the {} raised {} media/metadata events for {} items sent by the {}; first difference at item #{}: sent {} ; raised {} (expected app {:?}, key {:?})", when, if s.publish.is_some() { "server" } else { "client" }, g.len(), want.len(), if s.publish.is_some() { "client" } else { "server" }, i,
                want.get(i).map(|x| x.as_str()).unwrap_or("<nothing>"), g.get(i).map(|x| x.as_str()).unwrap_or("<nothing>"), s.expect_app, s.key));
        }
    };
    check_media(&p, "after all items were delivered");
    // the sending side must not have seen media
    let stray = if s.publish.is_some() { p.cev.iter().filter(|e| matches!(e, ClientSessionEvent::AudioDataReceived { .. } | ClientSessionEvent::VideoDataReceived { .. } | ClientSessionEvent::StreamMetadataReceived { .. })).count() }
                else { p.sev.iter().filter(|e| matches!(e, ServerSessionEvent::AudioDataReceived { .. } | ServerSessionEvent::VideoDataReceived { .. } | ServerSessionEvent::StreamMetadataChanged { .. })).count() };
    if stray != 0 { p.fail(format!("the sending side raised {} media events itself", stray)); }
    // ---- stop
    if !s.eager { p.stop(s.publish.is_some()); }
    p.settle();
    let fin: Vec<String> = p.sev.iter().filter_map(|e| match e { ServerSessionEvent::PublishStreamFinished { app_name, stream_key } => Some(format!("PublishStreamFinished({},{})", app_name, stream_key)), ServerSessionEvent::PlayStreamFinished { app_name, stream_key } => Some(format!("PlayStreamFinished({},{})", app_name, stream_key)), _ => None }).collect();
    let want_fin = vec![format!("{}({},{})", if s.publish.is_some() { "PublishStreamFinished" } else { "PlayStreamFinished" }, s.expect_app, s.key)];
    if fin != want_fin { p.fail(format!("stop: the server raised finished events {:?}, expected exactly {:?}", fin, want_fin)); }
    check_media(&p, "after the stop");
    stat(&format!("c02 scenarios ({:?})", s.sched));
    if debug() { stat(&format!("c02 input calls ({:?}) x{}", s.sched, 0)); if let Ok(mut g) = STATS.lock() { if let Some(e) = g.iter_mut().find(|e| e.0.starts_with(&format!("c02 input calls ({:?})", s.sched))) { e.1 += p.calls; } } }
}
fn c02_metadata_items() -> Vec<It> {
    let mut v = vec![It::Meta(StreamMetadata::new()), It::Meta(full_metadata())];
    let rates = [0.0f32, 23.976, 29.97, 60.0, 1.0];
    let enc = ["".to_string(), "ünï-çødé ✓ エンコーダ".to_string(), "e".repeat(1000), "obs".to_string(), "x".to_string()];
    for (i, &n) in [0u32, 1, 1 << 24, 1 << 31, u32::MAX].iter().enumerate() {
        let mut m = StreamMetadata::new();
        m.video_width = Some(n); m.video_height = Some(n); m.video_codec_id = Some(n); m.video_frame_rate = Some(rates[i]); m.video_bitrate_kbps = Some(n);
        m.audio_codec_id = Some(n); m.audio_bitrate_kbps = Some(n); m.audio_sample_rate = Some(n); m.audio_channels = Some(n); m.audio_is_stereo = Some(i % 2 == 0); m.encoder = Some(enc[i].clone());
        v.push(It::Meta(m));
    }
    for f in 0..11 {
        let mut m = StreamMetadata::new();
        match f { 0 => m.video_width = Some(640), 1 => m.video_height = Some(480), 2 => m.video_codec_id = Some(7), 3 => m.video_frame_rate = Some(29.97), 4 => m.video_bitrate_kbps = Some(2500), 5 => m.audio_codec_id = Some(10),
                  6 => m.audio_bitrate_kbps = Some(160), 7 => m.audio_sample_rate = Some(48000), 8 => m.audio_channels = Some(2), 9 => m.audio_is_stereo = Some(false), _ => m.encoder = Some("only".to_string()) }
        v.push(It::Meta(m));
    }
    v
}
fn mode_c02(seed: u64) {
    let chunks = [1u32, 2, 3, 4, 128, 4096, 65536];
    let windows = [1u32, 100, 2_500_000];
    let scheds = [Sched::Whole, Sched::Random, Sched::Bytewise];
    let mut rng = Rng(seed.wrapping_mul(0x2545F4914F6CDD1D) ^ 0xC02);
    const T: u32 = 0xFFFFFF;
    let sizes = [0usize, 1, 127, 128, 129, 4095, 4096, 4097, 65_536, 70_000];
    let stamps = [0u32, T - 1, T, 0x1000000, 0x80000000, 0xFFFFFFFF, 5, 0xFFFFFFFE, T, T, 2 * T, 1000, 999, 0];
    // 1. every chunk-size pair x window pair, publish and play, short item list, delivery model rotating with the seed
    let short = |k: u32| -> Vec<It> { let mut m = StreamMetadata::new(); m.video_width = Some(k); m.encoder = Some(format!("e{}", k));
        vec![It::Meta(m), It::Video(0, 0, false), It::Audio(0, 1, false), It::Video(T, 129, true), It::Ping, It::Audio(T - 1, 127, true), It::Video(0x1000000, 1, false), It::PingBack, It::Audio(5, 128, false), It::Meta(full_metadata()), It::Video(0x80000000, 2, false), It::Video(0xFFFFFFFF, 3, true), It::Video(7, 0, false)] };
    // 0. EAGER applications (see struct Eager): chunk sizes below / above the 25-byte createStream body and the > 128-byte connect result
    { let mut j = 0u64;
      for &ccs in &[16u32, 50, 128, 4096] { for &scs in &[16u32, 50, 128, 4096] { for &sched in &[Sched::Whole, Sched::Random] { for publish in [Some((j % 3) as u8), None] {
        j += 1; let w = [2_500_000u32, 100, 2_500_000, 1][(j % 4) as usize];
        c02_run(&Scn { app: "live", expect_app: "live", key: "eager-key", publish, items: short(j as u32), ccs, scs, cw: w, sw: if j % 5 == 0 { 100 } else { w }, sched, seed: seed.wrapping_add(3000 + j), double_connect: false, drip: false, eager: true, name: format!("eager #{}", j) });
      } } } } }
    let mut k = 0u32;
    for &ccs in &chunks { for &scs in &chunks { for &cw in &windows { for &sw in &windows {
        for publish in [Some((k % 3) as u8), None] {
            k += 1;
            let sched = scheds[((k as u64 + seed) % 3) as usize];
            c02_run(&Scn { app: "live", expect_app: "live", key: "stream-key", publish, items: short(k), ccs, scs, cw, sw, sched, seed: seed.wrapping_add(k as u64), double_connect: false, drip: k % 2 == 0, eager: false, name: format!("grid #{}", k) });
        }
    } } } }
    // 3. metadata: every field Some / None combination that matters, boundary numbers, frame rates, encoder strings
    for (i, &(ccs, scs, cw, sw)) in [(4096u32, 4096u32, 2_500_000u32, 2_500_000u32), (1, 128, 100, 1), (128, 3, 1, 100)].iter().enumerate() { for &sched in &scheds { for publish in [Some(i as u8), None] {
        c02_run(&Scn { app: "app/instance", expect_app: "app/instance", key: "key with spaces ✓", publish, items: c02_metadata_items(), ccs, scs, cw, sw, sched, seed: seed.wrapping_add(2000 + i as u64), double_connect: false, drip: true, eager: false, name: "metadata variants".into() });
    } } }
    // 4. application name with ONE trailing slash: the server reports the normalised name (recorded deviation D-C02-slash); only the normalised name is checked
    for &sched in &scheds { for publish in [Some(0u8), None] {
        c02_run(&Scn { app: "live/", expect_app: "live", key: "k", publish, items: short(1), ccs: 4096, scs: 4096, cw: 2_500_000, sw: 2_500_000, sched, seed, double_connect: false, drip: false, eager: false, name: "application name with a trailing slash".into() });
    } }
    // 5. a second connect from the same client while the first is unanswered, rejected by the server application: everything stays tagged with the accepted name
    for &sched in &scheds { for publish in [Some(0u8), None] { for &(cs, w) in &[(4096u32, 2_500_000u32), (2, 100)] {
        c02_run(&Scn { app: "alpha", expect_app: "alpha", key: "k", publish, items: short(2), ccs: cs, scs: cs, cw: w, sw: w, sched, seed: seed.wrapping_add(7), double_connect: true, drip: true, eager: false, name: "second connect rejected".into() });
    } } }
    // 6. seeded random scripts and configurations
    for r in 0..40u64 {
        let n = 3 + rng.below(14) as usize; let mut items = vec![]; let mut t = rng.pick(&stamps);
        for _ in 0..n { t = match rng.below(4) { 0 => rng.pick(&stamps), 1 => t.wrapping_add(rng.pick(&[0u32, 1, 33, T - 1, T, T + 1])), 2 => t.wrapping_sub(rng.pick(&[1u32, 1000, T])), _ => rng.next() as u32 };
            match rng.below(8) { 0 => items.push(rng.pick(&c02_metadata_items().iter().collect::<Vec<_>>()).clone()), 1 => items.push(It::Ping), 2 => items.push(It::PingBack),
                3 | 4 => items.push(It::Audio(t, rng.pick(&sizes[..8]), rng.below(2) == 0)), _ => items.push(It::Video(t, if rng.below(6) == 0 { rng.pick(&sizes) } else { rng.pick(&sizes[..8]) }, rng.below(2) == 0)) } }
        let publish = match rng.below(6) { 0 | 1 => Some(0u8), 2 => Some(1), 3 => Some(2), _ => None };
        c02_run(&Scn { app: "live", expect_app: "live", key: "rk", publish, items, ccs: rng.pick(&chunks), scs: rng.pick(&chunks), cw: rng.pick(&windows), sw: rng.pick(&windows), sched: rng.pick(&[Sched::Random, Sched::Random, Sched::Whole, Sched::Bytewise]), seed: seed.wrapping_add(5000 + r), double_connect: false, drip: rng.below(2) == 0, eager: false, name: format!("random script #{}", r) });
    }
    // 2. all payload sizes and timestamps of the statement, audio and video, under every delivery model
    let mut heavy = vec![];
    for (i, &n) in sizes.iter().enumerate() { heavy.push(It::Video(stamps[i % stamps.len()], n, i % 3 == 0)); heavy.push(It::Audio(stamps[(i + 3) % stamps.len()], n, i % 4 == 1)); if i == 4 { heavy.push(It::Ping); heavy.push(It::Meta(full_metadata())); } }
    for (i, &t) in stamps.iter().enumerate() { heavy.push(It::Video(t, 10 + i, false)); heavy.push(It::Audio(t.wrapping_add(1), 3, true)); }
    let mut cfgs: Vec<(u32, u32, u32, u32)> = vec![(4096, 4096, 2_500_000, 2_500_000), (128, 4096, 100, 2_500_000), (4096, 128, 2_500_000, 100), (65536, 65536, 100, 100), (4, 3, 2_500_000, 2_500_000), (1, 65536, 1, 2_500_000), (65536, 2, 2_500_000, 1), (128, 128, 1, 1)];
    for _ in 0..4 { cfgs.push((rng.pick(&chunks), rng.pick(&chunks), rng.pick(&windows), rng.pick(&windows))); }
    for (i, &(ccs, scs, cw, sw)) in cfgs.iter().enumerate() { for (j, &sched) in scheds.iter().enumerate() {
        if sched == Sched::Bytewise && i >= 6 && (i + j + seed as usize) % 2 == 0 { continue; }      // byte by byte over ~600 KB: every other configuration
        for publish in [Some(0u8), None] {
            c02_run(&Scn { app: "live", expect_app: "live", key: "k", publish, items: heavy.clone(), ccs, scs, cw, sw, sched, seed: seed.wrapping_add(1000 + i as u64), double_connect: false, drip: j == 1, eager: false, name: format!("all sizes and timestamps, configuration #{}", i) });
        }
    } }
}

// ================================================================ C19 (sessions part): configuration values honoured or refused, never a hang
const MAX_RESULTS: usize = 10_000;       // more results than this from one call for a few dozen input bytes is unbounded output
const BUDGET: usize = 64 << 20;          // live-heap budget of one call in the c19 / c03 modes
fn to_msg(m: &Msg) -> Result<RtmpMessage, String> {
    let p = MessagePayload { timestamp: RtmpTimestamp::new(m.ts), type_id: m.ty, message_stream_id: m.msid, data: Bytes::from(m.data.clone()) };
    match guard("to_rtmp_message", || p.to_rtmp_message())? { Ok(x) => Ok(x), Err(e) => Err(format!("malformed message of type {}: {}", m.ty, e)) }
}
// the packets a session returned, through the reference decoder: Err(text) if a conformant peer cannot decode them
fn ref_feed(rd: &mut RefDecoder, packets: &[Vec<u8>]) -> Result<Vec<RtmpMessage>, String> {
    let mut out = vec![];
    for (i, b) in packets.iter().enumerate() {
        if b.is_empty() { return Err(format!("packet #{} is empty", i)); }
        let v = rd.decode_all(b).map_err(|e| format!("packet #{} ({} bytes) is not decodable by a conformant peer: {}", i, b.len(), e))?;
        if v.len() != 1 { return Err(format!("packet #{} decodes to {} messages", i, v.len())); }
        out.push(to_msg(&v[0])?);
    }
    Ok(out)
}
fn s_packets(rs: Vec<ServerSessionResult>) -> (Vec<Vec<u8>>, Vec<ServerSessionEvent>) {
    let mut p = vec![]; let mut e = vec![];
    for r in rs { match r { ServerSessionResult::OutboundResponse(x) => p.push(x.bytes), ServerSessionResult::RaisedEvent(x) => e.push(x), _ => () } }
    (p, e)
}
fn c_packets(rs: Vec<ClientSessionResult>) -> (Vec<Vec<u8>>, Vec<ClientSessionEvent>) {
    let mut p = vec![]; let mut e = vec![];
    for r in rs { match r { ClientSessionResult::OutboundResponse(x) => p.push(x.bytes), ClientSessionResult::RaisedEvent(x) => e.push(x), _ => () } }
    (p, e)
}
fn c19_bad(desc: &str, what: String) -> ! { witness(format!("[c19] {}: {}", desc, what)) }
fn valid_chunk(n: u32) -> bool { n >= 1 && n <= 0x7FFF_FFFF }
fn strs(len: usize) -> String { "v".repeat(len) }
fn c19_server_cfg(desc: &str, cfg: ServerSessionConfig) {
    ctx(format!("c19 {}", desc));
    let r = with_budget(BUDGET, || guard("ServerSession::new", || ServerSession::new(cfg.clone())));
    let (mut sess, init) = match r {
        Err(e) => c19_bad(desc, e),
        Ok(Err(e)) => { if debug() { eprintln!("c19 {}: ServerSession::new -> Err({})", desc, e); } if valid_chunk(cfg.chunk_size) { c19_bad(desc, format!("ServerSession::new refused a configuration whose values are all legal: {}", e)); } return; }
        Ok(Ok(x)) => x,
    };
    if !valid_chunk(cfg.chunk_size) { c19_bad(desc, format!("ServerSession::new accepted chunk_size {} (legal: 1..=2147483647)", cfg.chunk_size)); }
    let mut rd = RefDecoder::new();
    let (pk, _) = s_packets(init);
    let msgs = match ref_feed(&mut rd, &pk) { Ok(m) => m, Err(e) => c19_bad(desc, format!("constructor packets: {}", e)) };
    let has = |f: &dyn Fn(&RtmpMessage) -> bool| msgs.iter().any(|m| f(m));
    if !has(&|m| matches!(m, RtmpMessage::SetChunkSize { size } if *size == cfg.chunk_size)) { c19_bad(desc, format!("chunk_size {} accepted but not announced: constructor sent {:?}", cfg.chunk_size, msgs.iter().map(cmsg).collect::<Vec<_>>())); }
    if !has(&|m| matches!(m, RtmpMessage::WindowAcknowledgement { size } if *size == cfg.window_ack_size)) { c19_bad(desc, format!("window_ack_size {} accepted but not announced: constructor sent {:?}", cfg.window_ack_size, msgs.iter().map(cmsg).collect::<Vec<_>>())); }
    if !has(&|m| matches!(m, RtmpMessage::SetPeerBandwidth { size, .. } if *size == cfg.peer_bandwidth)) { c19_bad(desc, format!("peer_bandwidth {} accepted but not announced: constructor sent {:?}", cfg.peer_bandwidth, msgs.iter().map(cmsg).collect::<Vec<_>>())); }
    // the version string is used when a connection request is accepted: Err, or a decodable result that carries it unchanged
    let mut p = Peer::new();
    let b = p.cmd("connect", 1.0, connect_obj("live", true), &[], 0);
    let rs = match with_budget(BUDGET, || guard("handle_input(connect)", || sess.handle_input(&b))) { Err(e) => c19_bad(desc, e), Ok(Err(e)) => c19_bad(desc, format!("connect refused: {}", e)), Ok(Ok(v)) => v };
    let (_, ev) = s_packets(rs);
    let id = match ev.iter().filter_map(sreq_id).next() { Some(i) => i, None => c19_bad(desc, "connect raised no request".into()) };
    match with_budget(BUDGET, || guard("accept_request", || sess.accept_request(id))) {
        Err(e) => c19_bad(desc, e),
        Ok(Err(e)) => { if debug() { eprintln!("c19 {}: accept_request -> Err({})", desc, e); } if cfg.fms_version.len() <= 60_000 { c19_bad(desc, format!("accept_request failed although the version string has only {} bytes", cfg.fms_version.len())) } }
        Ok(Ok(rs)) => {
            let (pk, _) = s_packets(rs);
            let msgs = match ref_feed(&mut rd, &pk) { Ok(m) => m, Err(e) => c19_bad(desc, format!("connect result (fms_version of {} bytes): {}", cfg.fms_version.len(), e)) };
            let ok = msgs.iter().any(|m| matches!(m, RtmpMessage::Amf0Command { command_name, command_object: Amf0Value::Object(o), .. } if command_name == "_result" && matches!(o.get("fmsVer"), Some(Amf0Value::Utf8String(v)) if *v == cfg.fms_version)));
            if !ok { c19_bad(desc, format!("the connect result does not carry the configured fms_version ({} bytes) unchanged", cfg.fms_version.len())); }
            if debug() { eprintln!("c19 {}: honoured (constructor {} packets, connect result decodable)", desc, msgs.len()); }
            // a 300-byte video goes out in chunks of the configured size
            match with_budget(BUDGET, || guard("send_video_data", || sess.send_video_data(1, Bytes::from(payload(300, 1)), RtmpTimestamp::new(5), false))) {
                Err(e) => c19_bad(desc, e), Ok(Err(e)) => c19_bad(desc, format!("send_video_data failed: {}", e)),
                Ok(Ok(pk)) => match ref_feed(&mut rd, &[pk.bytes]) { Ok(m) => if !matches!(&m[0], RtmpMessage::VideoData { data } if data[..] == payload(300, 1)[..]) { c19_bad(desc, "video decoded differently".into()) }, Err(e) => c19_bad(desc, format!("video packet at chunk size {}: {}", cfg.chunk_size, e)) },
            }
        }
    }
}
fn c19_client_cfg(desc: &str, cfg: ClientSessionConfig) {
    ctx(format!("c19 {}", desc));
    let (mut sess, init) = match with_budget(BUDGET, || guard("ClientSession::new", || ClientSession::new(cfg.clone()))) { Err(e) => c19_bad(desc, e), Ok(Err(_)) => return, Ok(Ok(x)) => x };
    let mut rd = RefDecoder::new();
    let (pk, _) = c_packets(init);
    if let Err(e) = ref_feed(&mut rd, &pk) { c19_bad(desc, format!("constructor packets: {}", e)); }
    let r = with_budget(BUDGET, || guard("request_connection", || sess.request_connection("live".to_string())));
    match r {
        Err(e) => c19_bad(desc, e),
        Ok(Err(e)) => { if debug() { eprintln!("c19 {}: request_connection -> Err({})", desc, e); } let longest = std::cmp::max(cfg.flash_version.len(), cfg.tc_url.as_ref().map(|u| u.len()).unwrap_or(0)); if longest <= 60_000 { c19_bad(desc, format!("request_connection failed although the longest configured string has only {} bytes: {}", longest, e)); } return; }
        Ok(Ok(res)) => {
            let (pk, _) = c_packets(vec![res]);
            let msgs = match ref_feed(&mut rd, &pk) { Ok(m) => m, Err(e) => c19_bad(desc, format!("connect command (flash_version of {} bytes): {}", cfg.flash_version.len(), e)) };
            let ok = msgs.iter().any(|m| matches!(m, RtmpMessage::Amf0Command { command_name, command_object: Amf0Value::Object(o), .. } if command_name == "connect" && matches!(o.get("flashVer"), Some(Amf0Value::Utf8String(v)) if *v == cfg.flash_version)));
            if !ok { c19_bad(desc, format!("the connect command does not carry the configured flash_version ({} bytes) unchanged", cfg.flash_version.len())); }
        }
    }
    let mut p = Peer::new();
    let b = p.cmd("_result", 1.0, A::Null, &[status("NetConnection.Connect.Success")], 0);
    match with_budget(BUDGET, || guard("handle_input(connect result)", || sess.handle_input(&b))) {
        Err(e) => c19_bad(desc, e),
        Ok(Err(e)) => { if debug() { eprintln!("c19 {}: connect result -> Err({})", desc, e); } if valid_chunk(cfg.chunk_size) { c19_bad(desc, format!("the connect result was refused although every configured value is legal: {}", e)); } return; }
        Ok(Ok(rs)) => {
            if !valid_chunk(cfg.chunk_size) { c19_bad(desc, format!("chunk_size {} (legal: 1..=2147483647) was neither refused by ClientSession::new nor when it was applied on connect success", cfg.chunk_size)); }
            let (pk, ev) = c_packets(rs);
            if !ev.contains(&ClientSessionEvent::ConnectionRequestAccepted) { c19_bad(desc, format!("no accepted event: {:?}", ev.iter().map(cev).collect::<Vec<_>>())); }
            let msgs = match ref_feed(&mut rd, &pk) { Ok(m) => m, Err(e) => c19_bad(desc, format!("packets on connect success: {}", e)) };
            if !msgs.iter().any(|m| matches!(m, RtmpMessage::SetChunkSize { size } if *size == cfg.chunk_size)) { c19_bad(desc, format!("chunk_size {} accepted but not announced: {:?}", cfg.chunk_size, msgs.iter().map(cmsg).collect::<Vec<_>>())); }
            if !msgs.iter().any(|m| matches!(m, RtmpMessage::WindowAcknowledgement { size } if *size == cfg.window_ack_size)) { c19_bad(desc, format!("window_ack_size {} accepted but not announced: {:?}", cfg.window_ack_size, msgs.iter().map(cmsg).collect::<Vec<_>>())); }
        }
    }
    // publish a 300-byte video at the configured chunk size
    let step = |what: &str, r: Result<Result<Vec<ClientSessionResult>, String>, String>, rd: &mut RefDecoder| -> Vec<RtmpMessage> {
        match r { Err(e) => c19_bad(desc, e), Ok(Err(e)) => c19_bad(desc, format!("{} failed: {}", what, e)), Ok(Ok(rs)) => { if rs.len() > MAX_RESULTS { c19_bad(desc, format!("{} returned {} results", what, rs.len())); } let (pk, _) = c_packets(rs); match ref_feed(rd, &pk) { Ok(m) => m, Err(e) => c19_bad(desc, format!("{}: {}", what, e)) } } }
    };
    let r = with_budget(BUDGET, || guard("request_publishing", || sess.request_publishing("k".to_string(), PublishRequestType::Live).map(|x| vec![x]).map_err(|e| format!("{}", e)))); step("request_publishing", r, &mut rd);
    let b = p.cmd("_result", 2.0, A::Null, &[A::N(1.0)], 0);
    let r = with_budget(BUDGET, || guard("handle_input", || sess.handle_input(&b).map_err(|e| format!("{}", e)))); step("createStream result", r, &mut rd);
    let b = p.cmd("onStatus", 0.0, A::Null, &[status("NetStream.Publish.Start")], 1);
    let r = with_budget(BUDGET, || guard("handle_input", || sess.handle_input(&b).map_err(|e| format!("{}", e)))); step("Publish.Start", r, &mut rd);
    let r = with_budget(BUDGET, || guard("publish_video_data", || sess.publish_video_data(Bytes::from(payload(300, 2)), RtmpTimestamp::new(9), false).map(|x| vec![x]).map_err(|e| format!("{}", e))));
    let m = step("publish_video_data", r, &mut rd);
    if !matches!(m.get(0), Some(RtmpMessage::VideoData { data }) if data[..] == payload(300, 2)[..]) { c19_bad(desc, format!("video packet at chunk size {} decodes differently", cfg.chunk_size)); }
    if debug() { eprintln!("c19 {}: honoured (connect, publish, 300-byte video decodable)", desc); }
}
// the PEER announces an acknowledgement window of w, then more input calls follow (also empty ones)
fn c19_peer_window(kind: &str, w: u32, cfg_window: u32) {
    let desc = format!("{} session, peer announces WindowAcknowledgement({}){}", kind, w, if kind == "pair" { format!(" = a client session configured with window_ack_size {}", cfg_window) } else { String::new() });
    ctx(format!("c19 {}", desc));
    let mut dec = OutDec::new(); let mut p = Peer::new();
    let mut sess = if kind == "client" { let (x, _) = match ClientSession::new(ClientSessionConfig::new()) { Ok(v) => v, Err(e) => c19_bad(&desc, format!("{}", e)) }; Either::C(x) }
                   else { let (x, init) = match ServerSession::new(ServerSessionConfig::new()) { Ok(v) => v, Err(e) => c19_bad(&desc, format!("{}", e)) }; for r in init { if let ServerSessionResult::OutboundResponse(pk) = r { let _ = dec.feed(&pk.bytes); } } Either::S(x) };
    let mut calls: Vec<(String, Vec<u8>)> = vec![("the window announcement".into(), p.wack(w)), ("an empty slice".into(), vec![]), ("a ping request".into(), p.ping(5)), ("an empty slice".into(), vec![]), ("one byte".into(), vec![]),
        ("a 300-byte unknown message".into(), p.raw(0x55, 0, 0, payload(300, 1))), ("an empty slice".into(), vec![]), ("an acknowledgement".into(), p.ack(7)), ("a second announcement".into(), p.wack(w)), ("a ping request".into(), p.ping(6)), ("an empty slice".into(), vec![])];
    // "one byte": the first byte of the next message, delivered alone
    let next = calls[5].1.clone(); calls[4].1 = next[..1].to_vec(); calls[5].1 = next[1..].to_vec();
    for (i, (what, b)) in calls.iter().enumerate() {
        ctx(format!("c19 {}: input call #{} ({}, {} bytes)", desc, i, what, b.len()));
        let r = with_budget(BUDGET, || match &mut sess {
            Either::S(x) => guard("ServerSession::handle_input", || x.handle_input(b).map(|v| { let n = v.len(); (n, s_packets(v).0) }).map_err(|e| format!("{}", e))),
            Either::C(x) => guard("ClientSession::handle_input", || x.handle_input(b).map(|v| { let n = v.len(); (n, c_packets(v).0) }).map_err(|e| format!("{}", e))) });
        match r {
            Err(e) => c19_bad(&desc, format!("input call #{} ({}): {}", i, what, e)),
            Ok(Err(e)) => c19_bad(&desc, format!("input call #{} ({}) failed: {}", i, what, e)),
            Ok(Ok((n, pk))) => { if n > MAX_RESULTS { c19_bad(&desc, format!("input call #{} ({}, {} bytes) returned {} results", i, what, b.len(), n)); }
                                 for x in pk { if let Err(e) = dec.feed(&x) { c19_bad(&desc, format!("after input call #{} ({}): {}", i, what, e)); } } }
        }
    }
}
// a client session with the given window talks to a server session (connect, publish request, some media): every call must return
fn c19_pair(window: u32) {
    let desc = format!("client session (window_ack_size {}) talking to a default server session", window);
    let mut ccfg = ClientSessionConfig::new(); ccfg.window_ack_size = window;
    let (mut srv, sinit) = match ServerSession::new(ServerSessionConfig::new()) { Ok(v) => v, Err(e) => c19_bad(&desc, format!("{}", e)) };
    let (mut cli, _) = match ClientSession::new(ccfg) { Ok(v) => v, Err(e) => c19_bad(&desc, format!("{}", e)) };
    let mut to_client: Vec<u8> = s_packets(sinit).0.concat(); let mut to_server: Vec<u8> = vec![];
    match guard("request_connection", || cli.request_connection("live".to_string())) { Ok(Ok(ClientSessionResult::OutboundResponse(p))) => to_server.extend(p.bytes), _ => c19_bad(&desc, "request_connection failed".into()) }
    let mut requested = false; let mut published = false;
    for round in 0..12 {
        ctx(format!("c19 {}: round {} ({} bytes to the server, {} bytes to the client)", desc, round, to_server.len(), to_client.len()));
        let inp = std::mem::take(&mut to_server);
        let rs = match with_budget(BUDGET, || guard("ServerSession::handle_input", || srv.handle_input(&inp))) { Err(e) => c19_bad(&desc, format!("round {}: server {}", round, e)), Ok(Err(e)) => c19_bad(&desc, format!("round {}: server handle_input failed: {}", round, e)), Ok(Ok(v)) => v };
        if rs.len() > MAX_RESULTS { c19_bad(&desc, format!("round {}: the server returned {} results for {} input bytes", round, rs.len(), inp.len())); }
        let (pk, ev) = s_packets(rs); to_client.extend(pk.concat());
        for e in ev { if let Some(id) = sreq_id(&e) { match with_budget(BUDGET, || guard("accept_request", || srv.accept_request(id))) { Ok(Ok(v)) => to_client.extend(s_packets(v).0.concat()), Ok(Err(e)) => c19_bad(&desc, format!("accept_request failed: {}", e)), Err(e) => c19_bad(&desc, e) } } }
        let inp = std::mem::take(&mut to_client);
        let rs = match with_budget(BUDGET, || guard("ClientSession::handle_input", || cli.handle_input(&inp))) { Err(e) => c19_bad(&desc, format!("round {}: client {}", round, e)), Ok(Err(e)) => c19_bad(&desc, format!("round {}: client handle_input failed: {}", round, e)), Ok(Ok(v)) => v };
        if rs.len() > MAX_RESULTS { c19_bad(&desc, format!("round {}: the client returned {} results for {} input bytes", round, rs.len(), inp.len())); }
        let (pk, ev) = c_packets(rs); to_server.extend(pk.concat());
        for e in ev { match e {
            ClientSessionEvent::ConnectionRequestAccepted if !requested => { requested = true; if let Ok(Ok(ClientSessionResult::OutboundResponse(p))) = guard("request_publishing", || cli.request_publishing("k".to_string(), PublishRequestType::Live)) { to_server.extend(p.bytes); } }
            ClientSessionEvent::PublishRequestAccepted => published = true,
            _ => () } }
        if published { if let Ok(Ok(ClientSessionResult::OutboundResponse(p))) = guard("publish_video_data", || cli.publish_video_data(Bytes::from(payload(200, round as u8)), RtmpTimestamp::new(round * 40), false)) { to_server.extend(p.bytes); } }
    }
    if !published { c19_bad(&desc, "the conversation never reached the publishing state".into()); }
}
// the largest message: 16,777,215 payload bytes fit the 3-byte length field, one more must be refused (or arrive intact), at a chunk size above it
fn c19_big_message() {
    for &len in &[16_777_215usize, 16_777_216] {
        let desc = format!("server session with chunk_size 2147483647, send_video_data of {} bytes", len);
        ctx(format!("c19 {}", desc));
        let mut cfg = ServerSessionConfig::new(); cfg.chunk_size = 0x7FFF_FFFF;
        let (mut sess, init) = match guard("ServerSession::new", || ServerSession::new(cfg)) { Ok(Ok(x)) => x, Ok(Err(e)) => c19_bad(&desc, format!("{}", e)), Err(e) => c19_bad(&desc, e) };
        let mut rd = RefDecoder::new();
        if let Err(e) = ref_feed(&mut rd, &s_packets(init).0) { c19_bad(&desc, e); }
        let data = Bytes::from(payload(len, 3));
        match with_budget(256 << 20, || guard("send_video_data", || sess.send_video_data(1, data.clone(), RtmpTimestamp::new(1), false))) {
            Err(e) => c19_bad(&desc, e),
            Ok(Err(e)) => if len <= 16_777_215 { c19_bad(&desc, format!("refused although the payload fits the 24-bit length field: {}", e)) },
            Ok(Ok(pk)) => match rd.decode_all(&pk.bytes) {
                Ok(v) if v.len() == 1 && v[0].ty == 9 && v[0].msid == 1 && v[0].data[..] == data[..] => (),
                Ok(v) => c19_bad(&desc, format!("accepted, but a conformant peer decodes {} message(s), the first with {} payload bytes", v.len(), v.get(0).map(|m| m.data.len()).unwrap_or(0))),
                Err(e) => c19_bad(&desc, format!("accepted, but the packet ({} bytes) is not decodable by a conformant peer: {}", pk.bytes.len(), e)),
            },
        }
    }
}
fn mode_c19(_seed: u64) {
    c19_big_message();
    let chunk_sizes = [0u32, 1, 2, 3, 4, 128, 4096, 0x7FFF_FFFF, 0x8000_0000, 0xFFFF_FFFF];
    let sizes = [0u32, 1, 100, 2_500_000, 0x7FFF_FFFF, 0xFFFF_FFFF];
    for &cs in &chunk_sizes {
        let mut c = ServerSessionConfig::new(); c.chunk_size = cs; c19_server_cfg(&format!("ServerSessionConfig chunk_size {}", cs), c);
        let mut c = ClientSessionConfig::new(); c.chunk_size = cs; c19_client_cfg(&format!("ClientSessionConfig chunk_size {}", cs), c);
    }
    for &v in &sizes {
        for &cs in &[4096u32, 1] {
            let mut c = ServerSessionConfig::new(); c.window_ack_size = v; c.chunk_size = cs; c19_server_cfg(&format!("ServerSessionConfig window_ack_size {} (chunk_size {})", v, cs), c);
            let mut c = ServerSessionConfig::new(); c.peer_bandwidth = v; c.chunk_size = cs; c.send_on_bw_done_message_on_start = false; c19_server_cfg(&format!("ServerSessionConfig peer_bandwidth {} (chunk_size {}, no onBWDone)", v, cs), c);
            let mut c = ClientSessionConfig::new(); c.window_ack_size = v; c.chunk_size = cs; c19_client_cfg(&format!("ClientSessionConfig window_ack_size {} (chunk_size {})", v, cs), c);
            let mut c = ClientSessionConfig::new(); c.playback_buffer_length_ms = v; c.chunk_size = cs; c19_client_cfg(&format!("ClientSessionConfig playback_buffer_length_ms {} (chunk_size {})", v, cs), c);
        }
        c19_pair(v);
    }
    for &len in &[0usize, 1, 65_535, 65_536, 80_000] {
        let mut c = ServerSessionConfig::new(); c.fms_version = strs(len); c19_server_cfg(&format!("ServerSessionConfig fms_version of {} bytes", len), c);
        let mut c = ServerSessionConfig::new(); c.fms_version = strs(len); c.chunk_size = 128; c19_server_cfg(&format!("ServerSessionConfig fms_version of {} bytes (chunk_size 128)", len), c);
        let mut c = ClientSessionConfig::new(); c.flash_version = strs(len); c19_client_cfg(&format!("ClientSessionConfig flash_version of {} bytes", len), c);
        let mut c = ClientSessionConfig::new(); c.tc_url = Some(strs(len)); c19_client_cfg(&format!("ClientSessionConfig tc_url of {} bytes", len), c);
    }
    for kind in ["server", "client"] { for &w in &[0u32, 1, 2, 0x7FFF_FFFF, 0xFFFF_FFFF] { c19_peer_window(kind, w, 0); } }
}

// ================================================================ C03 (sessions part): malformed but well-chunked peer messages
fn c03_cases() -> Vec<(String, u8, u32, Vec<u8>)> {
    let mut v: Vec<(String, u8, u32, Vec<u8>)> = vec![];
    for code in [5u16, 8, 9, 30, 33, 255, 256, 0xFFFF] { let mut b = code.to_be_bytes().to_vec(); b.extend_from_slice(&[0, 0, 0, 1]); v.push((format!("user control with undefined event type {}", code), 4, 0, b)); }
    for n in 0..2usize { v.push((format!("user control body of {} bytes", n), 4, 0, vec![0; n])); }
    v.push(("user control event 0 without a stream id".into(), 4, 0, vec![0, 0]));
    v.push(("user control SetBufferLength with one field".into(), 4, 0, vec![0, 3, 0, 0, 0, 1]));
    v.push(("user control ping request with a 2-byte timestamp".into(), 4, 0, vec![0, 6, 0, 1]));
    v.push(("AMF0 command without values".into(), 20, 0, vec![]));
    v.push(("AMF0 command with one value".into(), 20, 0, body(&[s("connect")])));
    v.push(("AMF0 command with two values".into(), 20, 0, body(&[s("connect"), A::N(1.0)])));
    v.push(("AMF0 command whose name is a number".into(), 20, 0, body(&[A::N(1.0), A::N(1.0), A::Null])));
    v.push(("AMF0 command whose transaction id is a string".into(), 20, 0, body(&[s("connect"), s("x"), A::Null])));
    v.push(("AMF0 command with a truncated string".into(), 20, 0, vec![2, 0, 50, b'c', b'o']));
    v.push(("AMF0 command with an unknown marker".into(), 20, 0, vec![2, 0, 1, b'c', 0x0D, 0x77]));
    v.push(("AMF0 command with an unterminated object".into(), 20, 0, { let mut b = body(&[s("connect"), A::N(1.0)]); b.extend_from_slice(&[3, 0, 3, b'a', b'p', b'p', 2, 0, 1, b'x']); b }));
    v.push(("AMF3 command (type 17) with only the format byte".into(), 17, 0, vec![0]));
    v.push(("AMF3 command (type 17) empty".into(), 17, 0, vec![]));
    for lt in [3u8, 4, 255] { v.push((format!("set peer bandwidth with limit type {}", lt), 6, 0, vec![0, 0, 1, 0, lt])); }
    for n in 0..5usize { v.push((format!("set peer bandwidth body of {} bytes", n), 6, 0, vec![0; n])); }
    v.push(("@setDataFrame alone".into(), 18, 1, body(&[s("@setDataFrame")])));
    v.push(("@setDataFrame with one following value".into(), 18, 1, body(&[s("@setDataFrame"), s("onMetaData")])));
    v.push(("@setDataFrame with two non-object values".into(), 18, 1, body(&[s("@setDataFrame"), A::N(1.0), A::N(2.0)])));
    v.push(("onMetaData alone".into(), 18, 1, body(&[s("onMetaData")])));
    v.push(("data message without values".into(), 18, 1, vec![]));
    v.push(("data message with a truncated number".into(), 18, 1, vec![0, 1, 2, 3]));
    for name in ["connect", "createStream", "publish", "play", "closeStream", "deleteStream", "_result", "_error", "onStatus"] {
        v.push((format!("{} with a null command object and no arguments", name), 20, 1, cmd_body(name, 2.0, A::Null, &[])));
        v.push((format!("{} with wrongly typed arguments", name), 20, 1, cmd_body(name, 2.0, A::N(3.0), &[A::B(true), A::Null, o(&[("a", A::N(1.0))]), s("x")])));
        v.push((format!("{} with string arguments", name), 20, 1, cmd_body(name, 2.0, s("obj"), &[s(""), s("")])));
        v.push((format!("{} with a huge number argument", name), 20, 1, cmd_body(name, 1e300, A::Null, &[A::N(1e300), A::N(-1e300), A::N(f64::NAN)])));
    }
    v.push(("connect whose app is a number".into(), 20, 0, cmd_body("connect", 1.0, o(&[("app", A::N(1.0))]), &[])));
    v.push(("onStatus whose code is a number".into(), 20, 1, cmd_body("onStatus", 0.0, A::Null, &[o(&[("code", A::N(1.0))])])));
    for n in 0..4usize { for ty in [1u8, 2, 3, 5] { v.push((format!("type-{} body of {} bytes", ty, n), ty, 0, vec![0; n])); } }
    v.push(("SetChunkSize(0)".into(), 1, 0, 0u32.to_be_bytes().to_vec()));
    v.push(("SetChunkSize(0x80000000)".into(), 1, 0, 0x8000_0000u32.to_be_bytes().to_vec()));
    v.push(("SetChunkSize(0xFFFFFFFF)".into(), 1, 0, 0xFFFF_FFFFu32.to_be_bytes().to_vec()));
    v.push(("WindowAcknowledgement(0)".into(), 5, 0, 0u32.to_be_bytes().to_vec()));
    // well-formed messages a session has nothing to do for: the call must return just the same
    v.push(("a valid Abort message".into(), 2, 0, vec![0, 0, 0, 4]));
    for lt in 0..3u8 { v.push((format!("a valid SetPeerBandwidth message (limit type {})", lt), 6, 0, vec![0, 0, 1, 0, lt])); }
    v.push(("a valid Acknowledgement".into(), 3, 0, vec![0, 0, 0, 9]));
    v.push(("a valid StreamEof user control message".into(), 4, 0, vec![0, 1, 0, 0, 0, 1]));
    v.push(("a valid data message the sessions ignore".into(), 18, 1, body(&[s("|RtmpSampleAccess"), A::B(false), A::B(false)])));
    v.push(("an unknown command".into(), 20, 1, cmd_body("FCPublish", 4.0, A::Null, &[s("k")])));
    v.push(("a message of an unknown type without payload".into(), 0x55, 0, vec![]));
    v
}
fn c03_session(kind: &str, state: usize, p: &mut Peer) -> Result<Either, String> {
    if kind == "server" {
        let (mut x, _) = guard("ServerSession::new", || ServerSession::new(ServerSessionConfig::new()))?.map_err(|e| format!("{}", e))?;
        if state >= 1 {
            let go = |b: Vec<u8>, x: &mut ServerSession| -> Result<(), String> {
                let rs = guard("handle_input", || x.handle_input(&b))?.map_err(|e| format!("{}", e))?;
                for r in rs { if let ServerSessionResult::RaisedEvent(e) = r { if let Some(id) = sreq_id(&e) { guard("accept_request", || x.accept_request(id))?.map_err(|e| format!("{}", e))?; } } }
                Ok(())
            };
            go(p.cmd("connect", 1.0, connect_obj("live", false), &[], 0), &mut x)?;
            go(p.cmd("createStream", 2.0, A::Null, &[], 0), &mut x)?;
            go(if state == 1 { p.cmd("publish", 3.0, A::Null, &[s("k"), s("live")], 1) } else { p.cmd("play", 3.0, A::Null, &[s("k")], 1) }, &mut x)?;
        }
        Ok(Either::S(x))
    } else {
        let (mut x, _) = guard("ClientSession::new", || ClientSession::new(ClientSessionConfig::new()))?.map_err(|e| format!("{}", e))?;
        if state >= 1 {
            guard("request_connection", || x.request_connection("live".to_string()))?.map_err(|e| format!("{}", e))?;
            let b = p.cmd("_result", 1.0, A::Null, &[], 0); guard("handle_input", || x.handle_input(&b))?.map_err(|e| format!("{}", e))?;
            if state == 1 { guard("request_playback", || x.request_playback("k".to_string()))?.map_err(|e| format!("{}", e))?; } else { guard("request_publishing", || x.request_publishing("k".to_string(), PublishRequestType::Live))?.map_err(|e| format!("{}", e))?; }
            let b = p.cmd("_result", 2.0, A::Null, &[A::N(1.0)], 0); guard("handle_input", || x.handle_input(&b))?.map_err(|e| format!("{}", e))?;
            let b = p.cmd("onStatus", 0.0, A::Null, &[status(if state == 1 { "NetStream.Play.Start" } else { "NetStream.Publish.Start" })], 1); guard("handle_input", || x.handle_input(&b))?.map_err(|e| format!("{}", e))?;
        }
        Ok(Either::C(x))
    }
}
// feed the pieces; every call must return (Ok or Err) with a bounded result list; stops at the first Err (the session gave up on the stream)
fn c03_feed(desc: &str, sess: &mut Either, pieces: &[&[u8]]) {
    for (i, b) in pieces.iter().enumerate() {
        ctx(format!("c03 {}: input call #{} of {} ({} bytes: {:02x?})", desc, i, pieces.len(), b.len(), &b[..std::cmp::min(b.len(), 48)]));
        let r = with_budget(BUDGET, || match sess {
            Either::S(x) => guard("ServerSession::handle_input", || x.handle_input(b).map(|v| v.len()).map_err(|e| format!("{}", e))),
            Either::C(x) => guard("ClientSession::handle_input", || x.handle_input(b).map(|v| v.len()).map_err(|e| format!("{}", e))) });
        match r {
            Err(e) => witness(format!("[c03] {}: input call #{} ({} bytes: {:02x?}): {}", desc, i, b.len(), &b[..std::cmp::min(b.len(), 64)], e)),
            Ok(Err(_)) => return,
            Ok(Ok(n)) => if n > MAX_RESULTS { witness(format!("[c03] {}: input call #{} ({} bytes) returned {} results", desc, i, b.len(), n)) },
        }
    }
}
// well-formed commands with BOUNDARY message stream ids, the application accepting whatever is raised: publish / play on a stream id
// the peer chose itself (never created), then closeStream / deleteStream / createStream again.  No call may panic or hang (Err is fine
// for accept_request; handle_input must cope with every one of these well-formed messages).
fn c03_boundary_streams() {
    for &sid in &[0u32, 1, 2, 3, 0x7FFF_FFFF, 0x8000_0000, 0xFFFF_FFFE, 0xFFFF_FFFF] { for creates in 0..3u32 { for is_pub in [true, false] { for with_close in [false, true] {
        let mut x = Srv::new();
        let r = x.connect("live", 1.0); let ids: Vec<u32> = r.ev.iter().filter_map(sreq_id).collect(); for id in ids { let _ = x.accept(id); }
        for k in 0..creates { let _ = x.create(2.0 + k as f64); }
        let r = if is_pub { x.publish(sid, "k") } else { x.play(sid, "k") };
        let ids: Vec<u32> = r.ev.iter().filter_map(sreq_id).collect(); for id in ids { let _ = x.accept(id); }
        let _ = x.media(sid, 0);
        if with_close { let _ = x.close(sid); }
        let _ = x.delete(sid);
        let _ = x.create(9.0);
        let _ = x.media(sid, 1);
        let _ = x.delete(sid.wrapping_add(1)); let _ = x.close(sid.wrapping_sub(1));
        let _ = x.create(10.0);
    } } } }
}
fn mode_c03(seed: u64) {
    c03_boundary_streams();
    let cases = c03_cases();
    let states = |kind: &str, st: usize| -> &'static str { match (kind, st) { (_, 0) => "fresh", ("server", 1) => "publishing", ("server", _) => "playing", (_, 1) => "playing", _ => "publishing" } };
    for kind in ["server", "client"] { for st in 0..3usize { for (name, ty, msid, data) in &cases {
        for placement in 0..5 {
            let mut p = Peer::new();
            let mut sess = match c03_session(kind, st, &mut p) { Ok(x) => x, Err(e) => witness(format!("[c03] setting up a {} {} session failed: {}", states(kind, st), kind, e)) };
            let bad = p.raw(*ty, 3, *msid, data.clone());
            let ping = p.ping(7);
            let media = if kind == "server" { p.audio(1, 9, payload(20, 1)) } else { p.ack(5) };
            let desc = format!("{} {} session, {} (type {}, message stream {}, body {:02x?}) {}", states(kind, st), kind, name, ty, msid, &data[..std::cmp::min(data.len(), 40)],
                ["alone in a call", "after a valid ping request in the same call", "followed by valid messages in the same call", "byte by byte", "alone, then an empty slice and valid messages in later calls"][placement]);
            match placement {
                0 => c03_feed(&desc, &mut sess, &[&bad]),
                1 => { let mut b = ping.clone(); b.extend_from_slice(&bad); c03_feed(&desc, &mut sess, &[&b]) }
                2 => { let mut b = bad.clone(); b.extend_from_slice(&ping); b.extend_from_slice(&media); c03_feed(&desc, &mut sess, &[&b]) }
                3 => { let mut b = bad.clone(); b.extend_from_slice(&ping); c03_feed(&desc, &mut sess, &b.chunks(1).collect::<Vec<_>>()) }
                _ => c03_feed(&desc, &mut sess, &[&bad, &[], &ping, &media, &[]]),
            }
        }
    } } }
    // pseudo-random damage to valid message bodies (seeded)
    let mut rng = Rng(seed ^ 0xC03);
    let valid: Vec<(u8, u32, Vec<u8>)> = vec![
        (20, 0, cmd_body("connect", 1.0, connect_obj("live", true), &[])), (20, 1, cmd_body("publish", 3.0, A::Null, &[s("k"), s("live")])), (20, 1, cmd_body("play", 3.0, A::Null, &[s("k"), A::N(-2.0), A::N(-1.0), A::B(true)])),
        (18, 1, body(&[s("@setDataFrame"), s("onMetaData"), meta_obj()])), (18, 1, body(&[s("onMetaData"), meta_obj()])), (20, 1, cmd_body("onStatus", 0.0, A::Null, &[status("NetStream.Play.Start")])),
        (20, 0, cmd_body("_result", 1.0, o(&[("fmsVer", s("x"))]), &[status("NetConnection.Connect.Success")])), (4, 0, vec![0, 3, 0, 0, 0, 1, 0, 0, 7, 208]), (6, 0, vec![0, 38, 37, 160, 2]), (20, 0, cmd_body("deleteStream", 0.0, A::Null, &[A::N(1.0)])),
    ];
    for round in 0..1500 {
        let (ty, msid, mut data) = valid[rng.below(valid.len() as u64) as usize].clone();
        for _ in 0..1 + rng.below(3) { if data.is_empty() { break; } match rng.below(4) {
            0 => { let i = rng.below(data.len() as u64) as usize; data[i] = rng.next() as u8; }
            1 => { let n = rng.below(data.len() as u64) as usize; data.truncate(n); }
            2 => { let i = rng.below(data.len() as u64) as usize; data[i] = rng.pick(&[0u8, 1, 2, 3, 5, 8, 9, 10, 0xFF]); }
            _ => { let i = rng.below(data.len() as u64) as usize; data.insert(i, rng.pick(&[0u8, 3, 10, 0xFF])); } } }
        let kind = if rng.below(2) == 0 { "server" } else { "client" }; let st = rng.below(3) as usize;
        let mut p = Peer::new();
        let mut sess = match c03_session(kind, st, &mut p) { Ok(x) => x, Err(e) => witness(format!("[c03] setting up a {} session failed: {}", kind, e)) };
        let bad = p.raw(ty, 3, msid, data.clone()); let mut b = bad.clone(); b.extend(p.ping(7));
        let desc = format!("{} {} session, damaged message #{} of seed {} (type {}, message stream {}, body {:02x?})", states(kind, st), kind, round, seed, ty, msid, &data[..std::cmp::min(data.len(), 60)]);
        if rng.below(2) == 0 { c03_feed(&desc, &mut sess, &[&b]); } else { c03_feed(&desc, &mut sess, &b.chunks(1 + rng.below(9) as usize).collect::<Vec<_>>()); }
    }
}

// safety nets for changed trees that never return or allocate without bound inside one call (catch_unwind cannot stop those):
// an address-space limit (the allocation failure aborts the process: replay.py reports a death by signal as a finding) and a watchdog.
#[cfg(target_os = "linux")]
fn limit_memory() {
    #[repr(C)] struct RLimit { cur: u64, max: u64 }
    extern "C" { fn setrlimit(resource: i32, rlim: *const RLimit) -> i32; }
    let l = RLimit { cur: 3 << 30, max: 3 << 30 };
    unsafe { let _ = setrlimit(9 /* RLIMIT_AS */, &l); }
}
#[cfg(not(target_os = "linux"))]
fn limit_memory() {}
fn main() {
    let a: Vec<String> = std::env::args().collect();
    let mode = a.get(1).map(|s| s.to_lowercase()).unwrap_or_default();
    let seed: u64 = a.get(2).and_then(|s| s.parse().ok()).unwrap_or(0);
    std::panic::set_hook(Box::new(|_| {}));
    limit_memory();
    if let Ok(mut g) = MODE.lock() { *g = mode.clone(); }
    LIMIT.store(1 << 30, Ordering::SeqCst);     // no mode needs anywhere near 1 GiB of live heap on the unchanged tree
    start_watchdog();
    { let mode = mode.clone(); std::thread::spawn(move || { std::thread::sleep(std::time::Duration::from_secs(280)); witness(format!("[{}] no result after 280 s: a call into the crate under test does not return (or is far slower than on the unchanged tree, where the whole mode takes about a second); last step: {}", mode, get_ctx())); }); }
    let r = catch_unwind(|| match mode.as_str() {
        "c09" => mode_c09(seed),
        "c10" => mode_c10(seed),
        "c15" => mode_c15(seed),
        "c17" => mode_c17(seed),
        "c18" => mode_c18(seed),
        "c19" => mode_c19(seed),
        "c03" => mode_c03(seed),
        "c02" => mode_c02(seed),
        _ => { eprintln!("usage: session_witness <c02|c09|c10|c15|c17|c18|c19|c03> [seed]"); std::process::exit(2) }
    });
    if let Err(e) = r {
        let m = e.downcast_ref::<&str>().map(|s| s.to_string()).or_else(|| e.downcast_ref::<String>().cloned()).unwrap_or_default();
        witness(format!("[{}] PANIC ({}) while running: {}", mode, trunc(&m, 200), get_ctx()));
    }
    if debug() { if let Ok(g) = STATS.lock() { for (k, n) in g.iter() { eprintln!("coverage: {} x {}", n, k); } } }
    println!("NONE");
}
