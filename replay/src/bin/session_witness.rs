// Witness finder for the SESSION properties C09, C10, C15 (session part), C17, C18: drives the REAL ServerSession /
// ClientSession of the crate under test through scripted scenarios plus pseudo-random variations and compares what
// they return with oracles written from the property statements (/verif/properties.jsonl).  Peer byte streams are
// produced with the real ChunkSerializer (verified conformant, C07) from message bodies encoded HERE (own AMF0
// encoder, deterministic property order) or as raw reference chunks (ref_chunk, copied from chunk_witness.rs).
// It never decides a verdict; it only tries to turn a failed / undecided proof obligation into a concrete failing input.
// usage: session_witness <c09|c10|c15|c17|c18> [seed]     exit 1 + last line "WITNESS ..." if a failing input is found,
//        else exit 0 + "NONE".  Nothing here depends on wall-clock values: timestamps of session-generated messages
//        are never compared.  SW_DEBUG=1 prints the reference traces to stderr.
use bytes::Bytes;
use rml_amf0::Amf0Value;
use rml_rtmp::chunk_io::{ChunkDeserializer, ChunkSerializer, Packet};
use rml_rtmp::messages::{MessagePayload, RtmpMessage, UserControlEventType};
use rml_rtmp::sessions::{
    ClientSession, ClientSessionConfig, ClientSessionEvent, ClientSessionResult, PublishRequestType, ServerSession,
    ServerSessionConfig, ServerSessionEvent, ServerSessionResult, StreamMetadata,
};
use rml_rtmp::time::RtmpTimestamp;
use std::collections::{HashMap, HashSet};
use std::panic::{catch_unwind, AssertUnwindSafe};
use std::sync::Mutex;

// ---------------------------------------------------------------- small utilities
struct Rng(u64);
impl Rng {
    fn next(&mut self) -> u64 { self.0 = self.0.wrapping_mul(6364136223846793005).wrapping_add(1442695040888963407); self.0 >> 33 }
    fn pick<T: Copy>(&mut self, v: &[T]) -> T { v[(self.next() % v.len() as u64) as usize] }
    fn below(&mut self, n: u64) -> u64 { self.next() % n }
}
static CTX: Mutex<String> = Mutex::new(String::new());
fn ctx(s: String) { if let Ok(mut g) = CTX.lock() { *g = s; } }
fn get_ctx() -> String { CTX.lock().map(|g| g.clone()).unwrap_or_default() }
fn trunc(s: &str, n: usize) -> String { if s.len() <= n { s.to_string() } else { let mut k = n; while !s.is_char_boundary(k) { k -= 1; } format!("{}...({} chars)", &s[..k], s.len()) } }
fn witness(s: String) -> ! { println!("WITNESS {}", trunc(&s.replace('\n', " "), 2800)); std::process::exit(1) }
fn debug() -> bool { std::env::var("SW_DEBUG").map(|v| v == "1").unwrap_or(false) }
fn payload(n: usize, salt: u8) -> Vec<u8> { (0..n).map(|i| (i as u8).wrapping_mul(7).wrapping_add(salt)).collect() }
fn guard<T>(what: &str, f: impl FnOnce() -> T) -> Result<T, String> {
    catch_unwind(AssertUnwindSafe(f)).map_err(|e| {
        let m = e.downcast_ref::<&str>().map(|s| s.to_string()).or_else(|| e.downcast_ref::<String>().cloned()).unwrap_or_default();
        format!("PANIC in {} ({})", what, trunc(&m, 200))
    })
}

// ---------------------------------------------------------------- own AMF0 encoder (AMF0 spec 2.2-2.5, 2.7), deterministic order
#[derive(Clone, Debug)]
enum A { N(f64), B(bool), S(String), O(Vec<(String, A)>), Null }
fn s(x: &str) -> A { A::S(x.to_string()) }
fn o(kv: &[(&str, A)]) -> A { A::O(kv.iter().map(|(k, v)| (k.to_string(), v.clone())).collect()) }
fn enc_a(v: &A, out: &mut Vec<u8>) {
    match v {
        A::N(x) => { out.push(0); out.extend_from_slice(&x.to_be_bytes()); }
        A::B(b) => { out.push(1); out.push(*b as u8); }
        A::S(t) => { out.push(2); out.extend_from_slice(&(t.len() as u16).to_be_bytes()); out.extend_from_slice(t.as_bytes()); }
        A::O(kv) => { out.push(3); for (k, v) in kv { out.extend_from_slice(&(k.len() as u16).to_be_bytes()); out.extend_from_slice(k.as_bytes()); enc_a(v, out); } out.extend_from_slice(&[0, 0, 9]); }
        A::Null => out.push(5),
    }
}
fn body(vals: &[A]) -> Vec<u8> { let mut b = vec![]; for v in vals { enc_a(v, &mut b); } b }
fn cmd_body(name: &str, tx: f64, obj: A, args: &[A]) -> Vec<u8> { let mut v = vec![s(name), A::N(tx), obj]; v.extend_from_slice(args); body(&v) }
fn status(code: &str) -> A { o(&[("level", s("status")), ("code", s(code)), ("description", s("d"))]) }
fn meta_obj() -> A { o(&[("width", A::N(1920.0)), ("height", A::N(1080.0)), ("videocodecid", A::N(7.0)), ("framerate", A::N(30.0)), ("stereo", A::B(true)), ("encoder", s("enc/1.0"))]) }
fn connect_obj(app: &str, big: bool) -> A {
    if big { o(&[("app", s(app)), ("flashVer", s("FMLE/3.0 (compatible; FMSc/1.0)")), ("swfUrl", s("rtmp://ingest.example.com:1935/live/some/long/path")),
                 ("tcUrl", s("rtmp://ingest.example.com:1935/live/some/long/path")), ("type", s("nonprivate")), ("objectEncoding", A::N(0.0))]) }
    else { o(&[("app", s(app))]) }
}

// ---------------------------------------------------------------- the peer: real ChunkSerializer over bodies encoded here
struct Peer { ser: ChunkSerializer }
impl Peer {
    fn new() -> Peer { Peer { ser: ChunkSerializer::new() } }
    fn raw(&mut self, ty: u8, ts: u32, msid: u32, data: Vec<u8>) -> Vec<u8> { self.raw_f(ty, ts, msid, data, false) }
    fn raw_f(&mut self, ty: u8, ts: u32, msid: u32, data: Vec<u8>, force: bool) -> Vec<u8> {
        let p = MessagePayload { timestamp: RtmpTimestamp::new(ts), type_id: ty, message_stream_id: msid, data: Bytes::from(data) };
        match guard("peer serialize", || self.ser.serialize(&p, force, false)) { Ok(Ok(pk)) => pk.bytes, Ok(Err(e)) => witness(format!("peer-side ChunkSerializer::serialize refused a valid message: {}", e)), Err(e) => witness(e) }
    }
    fn cmd(&mut self, name: &str, tx: f64, obj: A, args: &[A], msid: u32) -> Vec<u8> { self.raw(20, 0, msid, cmd_body(name, tx, obj, args)) }
    fn data(&mut self, vals: &[A], ts: u32, msid: u32) -> Vec<u8> { self.raw(18, ts, msid, body(vals)) }
    fn scs(&mut self, n: u32) -> Vec<u8> { match self.ser.set_max_chunk_size(n, RtmpTimestamp::new(0)) { Ok(p) => p.bytes, Err(e) => witness(format!("peer-side set_max_chunk_size({}) refused: {}", n, e)) } }
    fn wack(&mut self, w: u32) -> Vec<u8> { self.raw(5, 0, 0, w.to_be_bytes().to_vec()) }
    fn ack(&mut self, n: u32) -> Vec<u8> { self.raw(3, 0, 0, n.to_be_bytes().to_vec()) }
    fn spb(&mut self, n: u32) -> Vec<u8> { let mut b = n.to_be_bytes().to_vec(); b.push(2); self.raw(6, 0, 0, b) }
    fn uc(&mut self, code: u16, fields: &[u32]) -> Vec<u8> { let mut b = code.to_be_bytes().to_vec(); for f in fields { b.extend_from_slice(&f.to_be_bytes()); } self.raw(4, 0, 0, b) }
    fn ping(&mut self, ts: u32) -> Vec<u8> { self.uc(6, &[ts]) }
    fn audio(&mut self, msid: u32, ts: u32, d: Vec<u8>) -> Vec<u8> { self.raw(8, ts, msid, d) }
    fn video(&mut self, msid: u32, ts: u32, d: Vec<u8>) -> Vec<u8> { self.raw(9, ts, msid, d) }
}

// ---------------------------------------------------------------- reference chunk encoder / decoder (RTMP 5.3.1), copied from chunk_witness.rs
#[derive(Clone, Debug, PartialEq)]
struct Msg { ts: u32, ty: u8, msid: u32, data: Vec<u8> }
fn ref_basic(fmt: u8, csid: u32, form: u8) -> Vec<u8> {
    match form {
        1 => vec![(fmt << 6) | csid as u8],
        2 => vec![fmt << 6, (csid - 64) as u8],
        _ => vec![(fmt << 6) | 1, ((csid - 64) % 256) as u8, ((csid - 64) / 256) as u8],
    }
}
fn be24(v: u32) -> [u8; 3] { [(v >> 16) as u8, (v >> 8) as u8, v as u8] }
fn ref_chunk(fmt: u8, csid: u32, form: u8, tsf: u32, len: u32, ty: u8, msid: u32, payload: &[u8]) -> Vec<u8> {
    let mut v = ref_basic(fmt, csid, form);
    let f24 = if tsf >= 0xFFFFFF { 0xFFFFFF } else { tsf };
    if fmt <= 2 { v.extend_from_slice(&be24(f24)); }
    if fmt <= 1 { v.extend_from_slice(&be24(len)); v.push(ty); }
    if fmt == 0 { v.extend_from_slice(&msid.to_le_bytes()); }
    if tsf >= 0xFFFFFF { v.extend_from_slice(&tsf.to_be_bytes()); }
    v.extend_from_slice(payload);
    v
}
// one whole message as reference chunks: first chunk in format `fmt`, continuation chunks format 3 (extended timestamp repeated)
fn ref_message(mcs: usize, fmt: u8, csid: u32, form: u8, tsf: u32, ty: u8, msid: u32, data: &[u8]) -> Vec<u8> {
    let mut out = vec![];
    let n = if data.is_empty() { 1 } else { (data.len() + mcs - 1) / mcs };
    for c in 0..n { let sl = &data[c * mcs..std::cmp::min((c + 1) * mcs, data.len())]; out.extend(ref_chunk(if c == 0 { fmt } else { 3 }, csid, form, tsf, data.len() as u32, ty, msid, sl)); }
    out
}
#[derive(Clone, Default)]
struct RHdr { ts: u32, delta: u32, len: u32, ty: u8, msid: u32 }
struct RefDecoder { mcs: usize, prev: HashMap<u32, RHdr>, partial: HashMap<u32, Vec<u8>> }
impl RefDecoder {
    fn new() -> Self { RefDecoder { mcs: 128, prev: HashMap::new(), partial: HashMap::new() } }
    fn decode_all(&mut self, b: &[u8]) -> Result<Vec<Msg>, String> {
        let mut out = vec![];
        let mut i = 0usize;
        while i < b.len() {
            let fmt = b[i] >> 6;
            let low = (b[i] & 63) as u32;
            let (csid, n) = if low == 0 { if i + 2 > b.len() { return Err("trunc basic".into()); } (b[i + 1] as u32 + 64, 2) }
                else if low == 1 { if i + 3 > b.len() { return Err("trunc basic".into()); } (b[i + 2] as u32 * 256 + b[i + 1] as u32 + 64, 3) }
                else { (low, 1) };
            i += n;
            let first = self.partial.get(&csid).map(|p| p.is_empty()).unwrap_or(true);
            let mut h = if fmt == 0 { RHdr::default() } else { self.prev.get(&csid).cloned().ok_or_else(|| format!("no previous header on csid {}", csid))? };
            let need = match fmt { 0 => 11, 1 => 7, 2 => 3, _ => 0 };
            if i + need > b.len() { return Err("trunc header".into()); }
            let mut field = 0u32;
            if fmt <= 2 { field = (b[i] as u32) << 16 | (b[i + 1] as u32) << 8 | b[i + 2] as u32; i += 3; }
            if fmt <= 1 { h.len = (b[i] as u32) << 16 | (b[i + 1] as u32) << 8 | b[i + 2] as u32; h.ty = b[i + 3]; i += 4; }
            if fmt == 0 { h.msid = u32::from_le_bytes([b[i], b[i + 1], b[i + 2], b[i + 3]]); i += 4; }
            let has_ext = if fmt == 3 { h.delta >= 0xFFFFFF } else { field == 0xFFFFFF };
            let mut val = if fmt == 3 { h.delta } else { field };
            if has_ext { if i + 4 > b.len() { return Err("trunc ext".into()); } val = u32::from_be_bytes([b[i], b[i + 1], b[i + 2], b[i + 3]]); i += 4; }
            if fmt == 0 { h.ts = val; h.delta = val; }
            else if first { h.ts = h.ts.wrapping_add(val); h.delta = val; }
            let p = self.partial.entry(csid).or_default();
            if (h.len as usize) < p.len() { return Err("header announces less than buffered".into()); }
            let take = std::cmp::min(h.len as usize - p.len(), self.mcs);
            if i + take > b.len() { return Err("trunc payload".into()); }
            p.extend_from_slice(&b[i..i + take]); i += take;
            if p.len() == h.len as usize {
                let data = std::mem::take(p);
                let m = Msg { ts: h.ts, ty: h.ty, msid: h.msid, data };
                if m.ty == 1 && m.data.len() >= 4 {
                    let sz = u32::from_be_bytes([m.data[0], m.data[1], m.data[2], m.data[3]]);
                    if sz >= 1 && sz <= 0x7FFF_FFFF { self.mcs = sz as usize; }
                }
                out.push(m);
            }
            self.prev.insert(csid, h);
        }
        if self.partial.values().any(|p| !p.is_empty()) { return Err("stream ends inside a message".into()); }
        Ok(out)
    }
}

// ---------------------------------------------------------------- canonical text of decoded messages (object keys sorted)
fn camf(v: &Amf0Value) -> String {
    match v {
        Amf0Value::Object(m) => { let mut k: Vec<_> = m.iter().collect(); k.sort_by(|a, b| a.0.cmp(b.0)); format!("{{{}}}", k.iter().map(|(k, v)| format!("{}:{}", k, camf(v))).collect::<Vec<_>>().join(",")) }
        Amf0Value::StrictArray(a) => format!("[{}]", a.iter().map(camf).collect::<Vec<_>>().join(",")),
        other => format!("{:?}", other),
    }
}
fn camfs(v: &[Amf0Value]) -> String { v.iter().map(camf).collect::<Vec<_>>().join(",") }
fn sum(d: &[u8]) -> u32 { d.iter().fold(17u32, |a, &b| a.wrapping_mul(31).wrapping_add(b as u32)) }
fn cmsg(m: &RtmpMessage) -> String {
    match m {
        RtmpMessage::Amf0Command { command_name, transaction_id, command_object, additional_arguments } => format!("Cmd({},tx={:?},obj={},args=[{}])", command_name, transaction_id, camf(command_object), camfs(additional_arguments)),
        RtmpMessage::Amf0Data { values } => format!("Data([{}])", camfs(values)),
        RtmpMessage::AudioData { data } => format!("Audio(len={},sum={:x})", data.len(), sum(data)),
        RtmpMessage::VideoData { data } => format!("Video(len={},sum={:x})", data.len(), sum(data)),
        RtmpMessage::Unknown { type_id, data } => format!("Unknown(ty={},len={},sum={:x})", type_id, data.len(), sum(data)),
        other => format!("{:?}", other),
    }
}
// one decoded outbound message of a session (its timestamp is wall-clock derived and deliberately not kept)
#[derive(Clone, Debug)]
struct Out { ty: u8, msid: u32, msg: RtmpMessage }
impl Out {
    fn kind(&self) -> String { format!("{}@msid{}", cmsg(&self.msg), self.msid) }
    fn is_ack(&self) -> bool { matches!(self.msg, RtmpMessage::Acknowledgement { .. }) }
    fn cmd(&self, name: &str) -> Option<(f64, &Amf0Value, &Vec<Amf0Value>)> {
        match &self.msg { RtmpMessage::Amf0Command { command_name, transaction_id, command_object, additional_arguments } if command_name == name => Some((*transaction_id, command_object, additional_arguments)), _ => None }
    }
    fn ping_response(&self) -> Option<u32> {
        match &self.msg { RtmpMessage::UserControl { event_type: UserControlEventType::PingResponse, timestamp: Some(t), .. } => Some(t.value), _ => None }
    }
}
fn kinds(v: &[Out]) -> String { format!("[{}]", v.iter().map(|x| trunc(&x.kind(), 160)).collect::<Vec<_>>().join(" | ")) }
// what the peer of a session sees: the REAL deserializer (one per session), SetChunkSize honoured
struct OutDec { d: ChunkDeserializer }
impl OutDec {
    fn new() -> OutDec { OutDec { d: ChunkDeserializer::new() } }
    fn feed(&mut self, bytes: &[u8]) -> Result<Vec<Out>, String> {
        let mut out = vec![];
        let mut input: &[u8] = bytes;
        loop {
            let r = guard("peer ChunkDeserializer", || self.d.get_next_message(input))?;
            input = &[];
            match r {
                Err(e) => return Err(format!("the session's output does not decode: {}", e)),
                Ok(None) => break,
                Ok(Some(p)) => {
                    let m = match guard("to_rtmp_message", || p.to_rtmp_message())? { Ok(m) => m, Err(e) => return Err(format!("the session emitted a malformed message of type {}: {}", p.type_id, e)) };
                    if let RtmpMessage::SetChunkSize { size } = m { if let Err(e) = self.d.set_max_chunk_size(size as usize) { return Err(format!("session announced chunk size {}: {}", size, e)); } }
                    out.push(Out { ty: p.type_id, msid: p.message_stream_id, msg: m });
                }
            }
        }
        Ok(out)
    }
}
fn sev(e: &ServerSessionEvent) -> String {
    match e {
        ServerSessionEvent::UnhandleableAmf0Command { command_name, transaction_id, command_object, additional_values } => format!("UnhandleableAmf0Command({},tx={:?},obj={},args=[{}])", command_name, transaction_id, camf(command_object), camfs(additional_values)),
        other => format!("{:?}", other),
    }
}
fn cev(e: &ClientSessionEvent) -> String {
    match e {
        ClientSessionEvent::UnhandleableAmf0Command { command_name, transaction_id, command_object, additional_values } => format!("UnhandleableAmf0Command({},tx={:?},obj={},args=[{}])", command_name, transaction_id, camf(command_object), camfs(additional_values)),
        ClientSessionEvent::UnknownTransactionResultReceived { transaction_id, command_object, additional_values } => format!("UnknownTransactionResultReceived(tx={:?},obj={},args=[{}])", transaction_id, camf(command_object), camfs(additional_values)),
        other => format!("{:?}", other),
    }
}
fn sreq_id(e: &ServerSessionEvent) -> Option<u32> {
    match e {
        ServerSessionEvent::ConnectionRequested { request_id, .. } | ServerSessionEvent::PublishStreamRequested { request_id, .. }
        | ServerSessionEvent::PlayStreamRequested { request_id, .. } | ServerSessionEvent::ReleaseStreamRequested { request_id, .. } => Some(*request_id),
        _ => None,
    }
}

// ================================================================ C15: partition independence of both sessions
// A scenario is a list of SEGMENTS.  A message that makes the session raise a request the application has to answer
// (connect / publish / play on the server, the connect result on the client) is always the LAST message of its segment:
// the application's answer (accept_request / request_playback ...) is given right after the call that raised the event,
// as an application would.  Every partition delivers all bytes in order; cuts inside a segment are arbitrary.
fn run_server(chunk_cfg: u32, pieces: &[&[u8]]) -> Vec<String> {
    let mut tr = vec![];
    let mut cfg = ServerSessionConfig::new(); cfg.chunk_size = chunk_cfg;
    let (mut sess, init) = match guard("ServerSession::new", || ServerSession::new(cfg)) { Ok(Ok(x)) => x, Ok(Err(e)) => { tr.push(format!("ERR new: {}", e)); return tr } Err(e) => { tr.push(e); return tr } };
    let mut dec = OutDec::new();
    let mut absorb = |tr: &mut Vec<String>, dec: &mut OutDec, rs: Vec<ServerSessionResult>, pending: &mut Vec<u32>| -> bool {
        for r in rs { match r {
            ServerSessionResult::OutboundResponse(p) => match dec.feed(&p.bytes) { Ok(v) => for x in v { if !x.is_ack() { tr.push(format!("OUT {}", x.kind())); } }, Err(e) => { tr.push(format!("UNDECODABLE {}", e)); return false } },
            ServerSessionResult::RaisedEvent(e) => { if let Some(id) = sreq_id(&e) { pending.push(id); } tr.push(format!("EV {}", sev(&e))); }
            ServerSessionResult::UnhandleableMessageReceived(p) => tr.push(format!("UNH type={} msid={} ts={} len={} sum={:x}", p.type_id, p.message_stream_id, p.timestamp.value, p.data.len(), sum(&p.data))),
        } }
        true
    };
    let mut none = vec![];
    if !absorb(&mut tr, &mut dec, init, &mut none) { return tr; }
    for p in pieces {
        let rs = match guard("ServerSession::handle_input", || sess.handle_input(p)) { Err(e) => { tr.push(e); return tr } Ok(Err(e)) => { tr.push(format!("ERR {}", e)); return tr } Ok(Ok(v)) => v };
        let mut pending = vec![];
        if !absorb(&mut tr, &mut dec, rs, &mut pending) { return tr; }
        for id in pending {
            let rs = match guard("ServerSession::accept_request", || sess.accept_request(id)) { Err(e) => { tr.push(e); return tr } Ok(Err(e)) => { tr.push(format!("ERR accept: {}", e)); return tr } Ok(Ok(v)) => v };
            if !absorb(&mut tr, &mut dec, rs, &mut none) { return tr; }
        }
    }
    tr
}
fn run_client(chunk_cfg: u32, publish: bool, pieces: &[&[u8]]) -> Vec<String> {
    let mut tr = vec![];
    let mut cfg = ClientSessionConfig::new(); cfg.chunk_size = chunk_cfg;
    let (mut sess, init) = match guard("ClientSession::new", || ClientSession::new(cfg)) { Ok(Ok(x)) => x, Ok(Err(e)) => { tr.push(format!("ERR new: {}", e)); return tr } Err(e) => { tr.push(e); return tr } };
    let mut dec = OutDec::new();
    let mut absorb = |tr: &mut Vec<String>, dec: &mut OutDec, rs: Vec<ClientSessionResult>, accepted: &mut bool| -> bool {
        for r in rs { match r {
            ClientSessionResult::OutboundResponse(p) => match dec.feed(&p.bytes) { Ok(v) => for x in v { if !x.is_ack() { tr.push(format!("OUT {}", x.kind())); } }, Err(e) => { tr.push(format!("UNDECODABLE {}", e)); return false } },
            ClientSessionResult::RaisedEvent(e) => { if e == ClientSessionEvent::ConnectionRequestAccepted { *accepted = true; } tr.push(format!("EV {}", cev(&e))); }
            ClientSessionResult::UnhandleableMessageReceived(p) => tr.push(format!("UNH type={} msid={} ts={} len={} sum={:x}", p.type_id, p.message_stream_id, p.timestamp.value, p.data.len(), sum(&p.data))),
        } }
        true
    };
    let mut acc = false;
    if !absorb(&mut tr, &mut dec, init, &mut acc) { return tr; }
    match guard("request_connection", || sess.request_connection("live".to_string())) { Ok(Ok(r)) => { if !absorb(&mut tr, &mut dec, vec![r], &mut acc) { return tr; } } Ok(Err(e)) => { tr.push(format!("ERR request_connection: {}", e)); return tr } Err(e) => { tr.push(e); return tr } }
    for p in pieces {
        let rs = match guard("ClientSession::handle_input", || sess.handle_input(p)) { Err(e) => { tr.push(e); return tr } Ok(Err(e)) => { tr.push(format!("ERR {}", e)); return tr } Ok(Ok(v)) => v };
        let mut accepted = false;
        if !absorb(&mut tr, &mut dec, rs, &mut accepted) { return tr; }
        if accepted {
            let r = guard("request_playback/publishing", || if publish { sess.request_publishing("key".to_string(), PublishRequestType::Live) } else { sess.request_playback("key".to_string()) });
            match r { Ok(Ok(r)) => { if !absorb(&mut tr, &mut dec, vec![r], &mut acc) { return tr; } } Ok(Err(e)) => { tr.push(format!("ERR request: {}", e)); return tr } Err(e) => { tr.push(e); return tr } }
        }
    }
    tr
}
fn check_partitions(name: &str, segs: &[Vec<u8>], seed: u64, must_contain: &[&str], run: &dyn Fn(&[&[u8]]) -> Vec<String>) {
    ctx(format!("c15 scenario {}", name));
    let whole: Vec<&[u8]> = segs.iter().map(|x| &x[..]).collect();
    let reference = run(&whole);
    if debug() { eprintln!("--- {} ({} bytes in {} segments)", name, segs.iter().map(|x| x.len()).sum::<usize>(), segs.len()); for t in &reference { eprintln!("    {}", trunc(t, 220)); } }
    if let Some(p) = reference.iter().find(|x| x.starts_with("PANIC")) { witness(format!("[c15] scenario {}: delivery in whole segments: {}", name, p)); }
    let cmp = |what: String, pieces: &[&[u8]]| {
        let got = run(pieces);
        if got != reference {
            let i = (0..std::cmp::max(got.len(), reference.len())).find(|&i| got.get(i) != reference.get(i)).unwrap_or(0);
            witness(format!("[c15] scenario {} ({} bytes, segments of {:?} bytes, the application answers each request right after the call that raised it): delivery {} differs from delivery in whole segments at result #{}: whole segments give {} ; this delivery gives {} (results: {} vs {})",
                name, segs.iter().map(|x| x.len()).sum::<usize>(), segs.iter().map(|x| x.len()).collect::<Vec<_>>(), what, i,
                trunc(reference.get(i).map(|x| x.as_str()).unwrap_or("<nothing more>"), 400), trunc(got.get(i).map(|x| x.as_str()).unwrap_or("<nothing more>"), 400), reference.len(), got.len()));
        }
    };
    // the scenario must not be vacuous on the tree under test: the whole-segment delivery must show what it was written for.
    // (not a C15 matter if it does not: then the comparison below is still done, only the guard is reported on stderr)
    for m in must_contain { if !reference.iter().any(|x| x.contains(m)) && debug() { eprintln!("note: scenario {} never shows {:?}", name, m); } }
    let all: Vec<u8> = segs.iter().flat_map(|x| x.iter().cloned()).collect();
    cmp("byte by byte".into(), &all.chunks(1).collect::<Vec<_>>());
    cmp("in 7-byte pieces".into(), &all.chunks(7).collect::<Vec<_>>());
    for (si, seg) in segs.iter().enumerate() {
        let step = std::cmp::max(1, seg.len() / 70);
        let mut ks: Vec<usize> = vec![0, seg.len()];
        let mut k = (seed as usize) % step; while k <= seg.len() { ks.push(k); k += step; }
        if seg.len() <= 600 { ks = (0..=seg.len()).collect(); }
        for k in ks {
            let mut pieces: Vec<&[u8]> = segs[..si].iter().map(|x| &x[..]).collect();
            pieces.push(&seg[..k]); pieces.push(&seg[k..]);
            pieces.extend(segs[si + 1..].iter().map(|x| &x[..]));
            cmp(format!("with segment {} split at offset {}", si, k), &pieces);
        }
    }
    let mut rng = Rng(seed ^ 0xC15 ^ (name.len() as u64) << 20);
    for round in 0..6 {
        let mut pieces: Vec<&[u8]> = vec![]; let mut desc = vec![];
        for seg in segs { let mut i = 0; while i < seg.len() { let n = std::cmp::min(seg.len() - i, rng.pick(&[1usize, 2, 3, 5, 11, 12, 13, 64, 127, 128, 129, 1000, 0])); pieces.push(&seg[i..i + n]); desc.push(n); i += n; } }
        cmp(format!("in pseudo-random pieces (round {}, sizes {:?})", round, &desc[..std::cmp::min(desc.len(), 40)]), &pieces);
    }
}
fn media_run(p: &mut Peer, msid: u32, seg: &mut Vec<u8>) {
    let mut t = 0u32;
    for (i, &n) in [0usize, 1, 200, 5000, 1, 0, 200].iter().enumerate() {
        seg.extend(p.audio(msid, t, payload(n, i as u8))); t += 23;
        seg.extend(p.video(msid, t, payload(n, 100 + i as u8))); t += 17;
    }
}
fn mode_c15(seed: u64) {
    // (a) SetChunkSize(n) followed by a message longer than the old chunk size
    for &n in &[129u32, 4096] {
        for &with_ack in &[false, true] {
            let mut p = Peer::new(); let mut seg = vec![];
            if with_ack { seg.extend(p.wack(100)); }
            seg.extend(p.scs(n));
            let c = cmd_body("connect", 1.0, connect_obj("live", true), &[]);
            if c.len() <= 129 { witness("internal: connect body too short".into()); }
            seg.extend(p.raw(20, 0, 0, c));
            let seg2 = { let mut v = p.cmd("createStream", 2.0, A::Null, &[], 0); v.extend(p.ping(77)); v };
            check_partitions(&format!("a/server SetChunkSize({}) then a {}-byte connect{}", n, seg.len(), if with_ack { " after WindowAcknowledgement(100)" } else { "" }), &[seg, seg2], seed, &["ConnectionRequested", "Cmd(_result"], &|pc| run_server(4096, pc));
        }
        // the same on the client: SetChunkSize(n) then a long connect result
        let mut p = Peer::new(); let mut seg = vec![];
        seg.extend(p.scs(n));
        seg.extend(p.cmd("_result", 1.0, o(&[("fmsVer", s("FMS/3,0,1,123")), ("capabilities", A::N(31.0)), ("pad", s(&"x".repeat(150)))]), &[status("NetConnection.Connect.Success")], 0));
        let seg2 = p.cmd("_result", 2.0, A::Null, &[A::N(1.0)], 0);
        check_partitions(&format!("a/client SetChunkSize({}) then a long connect result", n), &[seg, seg2], seed, &["ConnectionRequestAccepted", "Cmd(play"], &|pc| run_client(4096, false, pc));
    }
    // (b) full server-side publish scenario, auto-accept
    for (vi, &(peer_cs, with_ack, cfg_cs)) in [(0u32, false, 4096u32), (4096, true, 4096), (129, false, 128), (50, true, 60)].iter().enumerate() {
        let mut p = Peer::new();
        let mut s1 = vec![];
        if with_ack { s1.extend(p.wack(300)); }
        if peer_cs != 0 { s1.extend(p.scs(peer_cs)); }
        s1.extend(p.cmd("connect", 1.0, connect_obj("live", true), &[], 0));
        let mut s2 = p.cmd("createStream", 2.0, A::Null, &[], 0);
        s2.extend(p.cmd("releaseStream", 3.0, A::Null, &[s("key")], 0));
        s2.extend(p.cmd("publish", 4.0, A::Null, &[s("key"), s("live")], 1));
        let mut s3 = p.data(&[s("@setDataFrame"), s("onMetaData"), meta_obj()], 0, 1);
        media_run(&mut p, 1, &mut s3);
        s3.extend(p.ping(0x01020304));
        s3.extend(p.audio(2, 5, payload(10, 1)));          // not a publishing stream: ignored
        s3.extend(p.ack(1234));
        s3.extend(p.raw(0x55, 9, 0, payload(33, 3)));      // unknown type: reported as unhandleable
        s3.extend(p.cmd("deleteStream", 0.0, A::Null, &[A::N(1.0)], 0));
        s3.extend(p.video(1, 900, payload(10, 2)));        // after deleteStream: ignored
        s3.extend(p.cmd("createStream", 5.0, A::Null, &[], 0));
        s3.extend(p.cmd("play", 6.0, A::Null, &[s("other"), A::N(-2.0), A::N(-1.0), A::B(true)], 2));
        let mut s4 = p.cmd("closeStream", 0.0, A::Null, &[A::N(2.0)], 2);
        s4.extend(p.ping(5));
        check_partitions(&format!("b/server variant {} connect, createStream, publish, metadata + media 0/1/200/5000, deleteStream, play, closeStream (peer chunk size {}, session chunk size {}{})", vi, if peer_cs == 0 { 128 } else { peer_cs }, cfg_cs, if with_ack { ", acknowledgement window 300" } else { "" }),
            &[s1, s2, s3, s4], seed, &["PublishStreamRequested", "StreamMetadataChanged", "VideoDataReceived", "PublishStreamFinished", "PlayStreamRequested", "PlayStreamFinished", "PingResponse"], &|pc| run_server(cfg_cs, pc));
    }
    // (b') the media part from a foreign encoder: 2- and 3-byte chunk stream ids, all header formats, extended timestamps
    {
        let mut p = Peer::new();
        let s1 = p.cmd("connect", 1.0, connect_obj("live", false), &[], 0);
        let mut s2 = p.cmd("createStream", 2.0, A::Null, &[], 0);
        s2.extend(p.cmd("publish", 3.0, A::Null, &[s("key"), s("live")], 1));
        let mut s3 = vec![];
        let d200 = payload(200, 9); let d300 = payload(300, 8);
        s3.extend(ref_message(128, 0, 64, 2, 0x1000005, 9, 1, &d200));     // format 0, extended absolute timestamp, 2 chunks
        s3.extend(ref_message(128, 1, 64, 2, 0xFFFFFF, 9, 1, &d300));      // format 1, delta exactly 0xFFFFFF (extended), 3 chunks
        s3.extend(ref_message(128, 2, 64, 2, 40, 9, 1, &d300));            // format 2
        s3.extend(ref_message(128, 3, 64, 2, 40, 9, 1, &d300));            // format 3 starting a new message
        s3.extend(ref_message(128, 0, 320, 3, 0xFFFFFE, 8, 1, &payload(1, 1)));
        s3.extend(ref_message(128, 2, 320, 3, 1, 8, 1, &payload(1, 2)));
        s3.extend(ref_message(128, 0, 65599, 3, 7, 8, 1, &[]));
        s3.extend(ref_message(128, 0, 2, 1, 0, 1, 0, &300u32.to_be_bytes()));   // SetChunkSize(300) from the foreign encoder
        s3.extend(ref_message(300, 1, 64, 2, 5, 9, 1, &d300));             // one 300-byte chunk
        check_partitions("b'/server media from a foreign encoder (csid 64/320/65599, formats 0-3, extended timestamps, SetChunkSize(300))", &[s1, s2, s3], seed, &["VideoDataReceived", "AudioDataReceived"], &|pc| run_server(4096, pc));
    }
    // (c) client side: play and publish
    for (vi, &(peer_cs, with_ack, publish)) in [(4096u32, true, false), (0, false, false), (129, true, true), (60, false, false)].iter().enumerate() {
        let mut p = Peer::new();
        let mut s1 = vec![];
        if with_ack { s1.extend(p.wack(300)); }
        s1.extend(p.spb(2_500_000));
        s1.extend(p.uc(0, &[0]));
        if peer_cs != 0 { s1.extend(p.scs(peer_cs)); }
        s1.extend(p.cmd("_result", 1.0, o(&[("fmsVer", s("FMS/3,0,1,123")), ("capabilities", A::N(31.0))]), &[o(&[("level", s("status")), ("code", s("NetConnection.Connect.Success")), ("description", s("Connection succeeded.")), ("objectEncoding", A::N(0.0))])], 0));
        let mut s2 = p.cmd("onBWDone", 0.0, A::Null, &[A::N(8192.0)], 0);
        s2.extend(p.cmd("_result", 2.0, A::Null, &[A::N(1.0)], 0));
        if publish {
            s2.extend(p.uc(0, &[1]));
            s2.extend(p.cmd("onStatus", 0.0, A::Null, &[status("NetStream.Publish.Start")], 1));
            s2.extend(p.ping(0xFFFFFFFF)); s2.extend(p.ack(5000)); s2.extend(p.raw(0x55, 9, 0, payload(150, 3)));
            s2.extend(p.cmd("_result", 9.0, A::Null, &[A::N(3.0)], 0));       // unknown transaction
        } else {
            s2.extend(p.video(1, 0, payload(20, 1)));                            // media before Play.Start (play requested)
            s2.extend(p.cmd("onStatus", 0.0, A::Null, &[status("NetStream.Play.Reset")], 1));
            s2.extend(p.uc(0, &[1]));
            s2.extend(p.cmd("onStatus", 0.0, A::Null, &[status("NetStream.Play.Start")], 1));
            s2.extend(p.data(&[s("|RtmpSampleAccess"), A::B(false), A::B(false)], 0, 1));
            s2.extend(p.data(&[s("onMetaData"), meta_obj()], 0, 1));
            media_run(&mut p, 1, &mut s2);
            s2.extend(p.audio(2, 7, payload(10, 1)));                            // not the active stream: ignored
            s2.extend(p.data(&[s("onMetaData"), meta_obj()], 0, 2));
            s2.extend(p.ping(0x01020304)); s2.extend(p.ack(5000)); s2.extend(p.uc(1, &[1]));
            s2.extend(p.cmd("_error", 9.0, A::Null, &[A::N(3.0)], 0));        // unknown transaction
        }
        check_partitions(&format!("c/client variant {} connect result, createStream result, {} (peer chunk size {}{})", vi, if publish { "Publish.Start, ping, ack" } else { "Play.Start, metadata, media 0/1/200/5000, ping" }, if peer_cs == 0 { 128 } else { peer_cs }, if with_ack { ", acknowledgement window 300" } else { "" }),
            &[s1, s2], seed, if publish { &["ConnectionRequestAccepted", "PublishRequestAccepted", "PingResponse"] } else { &["ConnectionRequestAccepted", "PlaybackRequestAccepted", "StreamMetadataReceived", "VideoDataReceived", "PingResponse"] }, &|pc| run_client(if vi == 3 { 64 } else { 4096 }, publish, pc));
    }
    // pseudo-random valid server streams (seeded): one publishing stream, random harmless traffic around it
    let mut rng = Rng(seed.wrapping_mul(0x9E3779B97F4A7C15) ^ 0x15);
    for round in 0..6 {
        let mut p = Peer::new();
        let mut s1 = vec![];
        if rng.below(2) == 0 { s1.extend(p.wack(rng.pick(&[1u32, 50, 1000]))); }
        let cs = rng.pick(&[0u32, 1, 17, 128, 129, 1000]);
        if cs != 0 { s1.extend(p.scs(cs)); }
        s1.extend(p.cmd("connect", 1.0, connect_obj("app/", rng.below(2) == 0), &[], 0));
        let mut s2 = p.cmd("createStream", 2.0, A::Null, &[], 0);
        s2.extend(p.cmd("publish", 3.0, A::Null, &[s("k"), s(rng.pick(&["live", "record", "append"]))], 1));
        let mut s3 = vec![]; let mut t = rng.pick(&[0u32, 0xFFFFF0, 0xFFFFFFF0]);
        for k in 0..12 {
            let n = rng.pick(&[0usize, 1, 2, 127, 128, 129, 300]);
            t = t.wrapping_add(rng.pick(&[0u32, 1, 15, 16, 0xFFFFFF]));
            match rng.below(8) {
                0 | 1 => s3.extend(p.audio(1, t, payload(n, k))), 2 | 3 => s3.extend(p.video(1, t, payload(n, k))),
                4 => s3.extend(p.ping(t)), 5 => s3.extend(p.data(&[s("@setDataFrame"), s("onMetaData"), meta_obj()], t, 1)),
                6 => { let c = rng.pick(&[1u32, 64, 128, 200]); s3.extend(p.scs(c)); }
                _ => s3.extend(p.cmd("whatever", 7.0, A::Null, &[s("x")], 1)),
            }
        }
        s3.extend(p.cmd("deleteStream", 0.0, A::Null, &[A::N(1.0)], 0));
        check_partitions(&format!("r/server pseudo-random publish session #{} (seed {})", round, seed), &[s1, s2, s3], seed, &["PublishStreamRequested", "PublishStreamFinished"], &|pc| run_server(4096, pc));
    }
}

// ================================================================ C17: acknowledgement accounting, both session kinds
enum Either { S(ServerSession), C(ClientSession) }
impl Either {
    fn input(&mut self, b: &[u8]) -> Result<Vec<Packet>, String> {
        match self {
            Either::S(x) => match guard("ServerSession::handle_input", || x.handle_input(b))? { Ok(v) => Ok(v.into_iter().filter_map(|r| if let ServerSessionResult::OutboundResponse(p) = r { Some(p) } else { None }).collect()), Err(e) => Err(format!("handle_input returned Err: {}", e)) },
            Either::C(x) => match guard("ClientSession::handle_input", || x.handle_input(b))? { Ok(v) => Ok(v.into_iter().filter_map(|r| if let ClientSessionResult::OutboundResponse(p) = r { Some(p) } else { None }).collect()), Err(e) => Err(format!("handle_input returned Err: {}", e)) },
        }
    }
}
#[derive(Clone, Debug)]
enum Item { Announce(u32), PadExact(usize), PadAbout(usize, bool) }   // PadAbout(n, with ping requests)
// exact-size harmless traffic: unknown-type messages with full (format 0) headers: 12 + payload bytes each, payload <= 128
fn pad_exact(p: &mut Peer, mut n: usize, out: &mut Vec<u8>, k: &mut u8) {
    while n > 0 {
        if n < 12 { witness(format!("internal: exact padding of {} bytes impossible", n)); }
        let t = if n <= 140 { n } else { std::cmp::min(140, n - 12) };
        *k = k.wrapping_add(1);
        let b = p.raw_f(0x55, 0, 0, payload(t - 12, *k), true);
        if b.len() != t { witness(format!("internal: padding message of {} bytes came out as {}", t, b.len())); }
        out.extend(b); n -= t;
    }
}
fn pad_about(p: &mut Peer, n: usize, pings: bool, rng: &mut Rng, out: &mut Vec<u8>, k: &mut u8) {
    let start = out.len();
    while out.len() - start < n {
        *k = k.wrapping_add(1);
        match rng.below(if pings { 5 } else { 4 }) {
            0 => out.extend(p.ack(rng.next() as u32)),
            1 => out.extend(p.raw(0x55, *k as u32, 0, payload(rng.pick(&[0usize, 1, 30, 127, 128, 129, 300]), *k))),
            2 => out.extend(p.raw(0x56, 0, 1, payload(rng.pick(&[5usize, 64]), *k))),
            3 => out.extend(p.raw(2, 0, 0, vec![0, 0, 0, 9])),           // Abort: ignored / unhandleable
            _ => out.extend(p.ping(rng.next() as u32)),
        }
    }
}
fn c17_run(kind: &str, warm: bool, items: &[Item], calls: &[usize], tail: usize, rng: &mut Rng) {
    let desc = format!("{} session{}, peer stream {:?}, call sizes {:?}{}", kind, if warm { " (after a connect exchange)" } else { "" }, items, &calls[..std::cmp::min(calls.len(), 60)], if calls.len() > 60 { format!(" ... ({} calls)", calls.len()) } else { String::new() });
    ctx(format!("c17 {}", desc));
    let mut dec = OutDec::new();
    let mut p = Peer::new();
    let mut sess = if kind == "server" {
        let (mut x, init) = match ServerSession::new(ServerSessionConfig::new()) { Ok(v) => v, Err(e) => witness(format!("[c17] ServerSession::new failed: {}", e)) };
        for r in init { if let ServerSessionResult::OutboundResponse(pk) = r { let _ = dec.feed(&pk.bytes); } }
        if warm {
            let rs = x.handle_input(&p.cmd("connect", 1.0, connect_obj("live", false), &[], 0)).unwrap_or_default();
            for r in rs { if let ServerSessionResult::RaisedEvent(e) = r { if let Some(id) = sreq_id(&e) { for r2 in x.accept_request(id).unwrap_or_default() { if let ServerSessionResult::OutboundResponse(pk) = r2 { let _ = dec.feed(&pk.bytes); } } } } }
        }
        Either::S(x)
    } else {
        let (mut x, _) = match ClientSession::new(ClientSessionConfig::new()) { Ok(v) => v, Err(e) => witness(format!("[c17] ClientSession::new failed: {}", e)) };
        if warm {
            if let Ok(ClientSessionResult::OutboundResponse(pk)) = x.request_connection("live".to_string()) { let _ = dec.feed(&pk.bytes); }
            for r in x.handle_input(&p.cmd("_result", 1.0, A::Null, &[], 0)).unwrap_or_default() { if let ClientSessionResult::OutboundResponse(pk) = r { let _ = dec.feed(&pk.bytes); } }
        }
        Either::C(x)
    };
    // lay out the peer stream; remember where each announcement ends
    let mut stream = vec![]; let mut ann: Vec<(usize, u32)> = vec![]; let mut k = 0u8;
    for it in items { match it {
        Item::Announce(w) => { stream.extend(p.wack(*w)); ann.push((stream.len(), *w)); }
        Item::PadExact(n) => pad_exact(&mut p, *n, &mut stream, &mut k),
        Item::PadAbout(n, pings) => pad_about(&mut p, *n, *pings, rng, &mut stream, &mut k),
    } }
    let need: usize = calls.iter().sum::<usize>() + tail;
    if stream.len() < need { let n = need - stream.len() + 1; pad_about(&mut p, n, true, rng, &mut stream, &mut k); }
    // reference counter, from the statement
    let (mut window, mut c, mut pos): (Option<u64>, u64, usize) = (None, 0, 0);
    let (mut acked, mut counted): (u64, u64) = (0, 0);
    for (ci, &n) in calls.iter().enumerate() {
        let end = pos + n;
        let got_packets = match sess.input(&stream[pos..end]) { Ok(v) => v, Err(e) => witness(format!("[c17] {}: call #{} ({} bytes at offset {}): {}", desc, ci, n, pos, e)) };
        let mut got = vec![];
        for pk in got_packets { match dec.feed(&pk.bytes) { Ok(v) => for m in v { if let RtmpMessage::Acknowledgement { sequence_number } = m.msg { got.push(sequence_number as u64); } }, Err(e) => witness(format!("[c17] {}: call #{}: {}", desc, ci, e)) } }
        let mut expect = vec![];
        let (w_at_start, before) = (window, c);
        if let Some(w) = window { c += n as u64; counted += n as u64; if c >= w { expect.push(c); acked += c; c = 0; } }
        if got != expect {
            witness(format!("[c17] {}: call #{} ({} bytes at stream offset {}; window in force {:?}; {} bytes outstanding before the call): Acknowledgement messages returned by this call {:?}, the statement requires {:?}", desc, ci, n, pos, w_at_start, before, got, expect));
        }
        for &(e, w) in &ann { if e > pos && e <= end { window = Some(w as u64); } }
        pos = end;
    }
    if acked + c != counted { witness(format!("[c17] {}: conservation broken: acknowledged {} + outstanding {} != received {}", desc, acked, c, counted)); }
}
fn mode_c17(seed: u64) {
    let mut rng = Rng(seed ^ 0xC17C17);
    const A: usize = 16;    // a WindowAcknowledgement message on the wire: 12 header bytes + 4
    for kind in ["server", "client"] {
        for &w in &[1u32, 2, 3, 100, 1000, 5000] {
            let wz = w as usize;
            for warm in [false, true] {
                let base = vec![Item::Announce(w), Item::PadAbout(1, true)];
                let mut pats: Vec<Vec<usize>> = vec![
                    vec![A, wz, wz, wz],
                    vec![A, wz + 1, wz + 1, wz.saturating_sub(1), 1, 1],
                    vec![A, 2 * wz + 5, 0, 0, wz / 2, wz - wz / 2, 0, wz / 2, wz - wz / 2 - if wz > 1 { 1 } else { 0 }, 1],
                    vec![7, A - 7, wz, wz],                  // announcement split over two calls
                    vec![A + 5, wz.saturating_sub(1), 1, wz],   // announcement and 5 more bytes in one call: counting starts with the next call
                    vec![A + 3 * wz + 1, wz],
                    vec![1; A + 2 * wz + 3],                 // byte by byte, announcement included
                ];
                if w >= 2 { pats.push(vec![A, wz - 1, 1, wz - 1, 1, wz - 1, 2, wz - 2]); }
                if w == 100 { pats.push(vec![A, 40, 60, 40, 60, 99, 1, 100, 101, 1, 98, 1]); pats.push(vec![A, 40, 59, 1, 0, 100]); }
                let mut r = vec![A]; for _ in 0..40 { r.push(rng.pick(&[0usize, 1, 2, 3, 7, wz / 2, wz.saturating_sub(1), wz, wz + 1, 2 * wz, 3 * wz + 1])); } pats.push(r);
                let mut r = vec![]; for _ in 0..60 { r.push(rng.pick(&[0usize, 1, 5, 11, 16, 17, wz / 3 + 1, wz, wz + 2])); } pats.push(r);
                for calls in &pats { c17_run(kind, warm, &base, calls, 0, &mut rng); }
            }
            // window re-announcements mid-stream: same, larger, smaller than what is outstanding
            if w >= 100 {
                let half = wz / 2 + 10;    // >= 12
                for &w2 in &[w, 3 * w, w / 10, 1, (half + A) as u32, (half + A + 1) as u32] {
                    let w2z = w2 as usize;
                    let items = vec![Item::Announce(w), Item::PadExact(half), Item::Announce(w2), Item::PadAbout(1, false)];
                    // announcement alone, `half` bytes, the re-announcement alone, then calls around both thresholds
                    let rest = wz - half - A;   // bytes still missing to the OLD window after the re-announcement
                    for tail in [vec![0usize, 1, rest.saturating_sub(1), 1, 1, w2z, w2z, 1], vec![rest, w2z.saturating_sub(1), 1, w2z + 1], vec![1; rest + w2z + 2], vec![3 * wz + 3 * w2z, 0, w2z]] {
                        let mut calls = vec![A, half, A]; calls.extend(tail);
                        c17_run(kind, false, &items, &calls, 0, &mut rng);
                    }
                    // the same stream in pseudo-random calls (the re-announcement lands wherever it lands)
                    for _ in 0..4 { let mut calls = vec![]; for _ in 0..50 { calls.push(rng.pick(&[0usize, 1, 7, 16, half / 2, half, wz / 3, w2z / 2 + 1, w2z, wz])); } c17_run(kind, true, &items, &calls, 0, &mut rng); }
                }
            }
        }
        // several re-announcements in one stream
        let items = vec![Item::Announce(1000), Item::PadAbout(700, true), Item::Announce(1000), Item::PadAbout(900, false), Item::Announce(5000), Item::PadAbout(3000, true), Item::Announce(100), Item::PadAbout(600, true), Item::Announce(3), Item::PadAbout(50, false)];
        for _ in 0..10 { let mut calls = vec![]; for _ in 0..120 { calls.push(rng.pick(&[0usize, 1, 2, 3, 16, 50, 99, 100, 101, 333, 1000])); } c17_run(kind, false, &items, &calls, 0, &mut rng); }
    }
}

//@@MODES@@

fn main() {
    let a: Vec<String> = std::env::args().collect();
    let mode = a.get(1).map(|s| s.to_lowercase()).unwrap_or_default();
    let seed: u64 = a.get(2).and_then(|s| s.parse().ok()).unwrap_or(0);
    std::panic::set_hook(Box::new(|_| {}));
    let r = guard("the finder", || match mode.as_str() {
        "c09" => mode_c09(seed),
        "c10" => mode_c10(seed),
        "c15" => mode_c15(seed),
        "c17" => mode_c17(seed),
        "c18" => mode_c18(seed),
        _ => { eprintln!("usage: session_witness <c09|c10|c15|c17|c18> [seed]"); std::process::exit(2) }
    });
    if let Err(e) = r { witness(format!("[{}] {} while running: {}", mode, e, get_ctx())); }
    println!("NONE");
}
