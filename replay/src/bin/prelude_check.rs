// BOUNDED cross-check of the trusted prelude (vc/prelude/core.rs.inc, de.rs.inc) against the REAL bytes / byteorder /
// std::io::Cursor: every assumed contract is evaluated on an exhaustive small domain. Not a proof; it shrinks the trusted
// base in the "tested" sense only and is reported under `bounded` in the evidence (thorough tier).
use byteorder::{BigEndian, LittleEndian, ReadBytesExt, WriteBytesExt};
use bytes::{BufMut, Bytes, BytesMut};
use std::io::{Cursor, Write};
use std::panic::{catch_unwind, AssertUnwindSafe};
fn fail(s: String) -> ! { println!("WITNESS prelude contract violated: {}", s); std::process::exit(1) }
fn main() {
    std::panic::set_hook(Box::new(|_| {}));
    let base: Vec<u8> = (0..9u8).map(|i| i.wrapping_mul(37).wrapping_add(200)).collect();
    let mut n = 0u64;
    // BytesMut::split_to(at): at <= len -> (prefix, rest); at > len -> panic (the prelude makes that a precondition)
    for len in 0..=base.len() { for at in 0..=len + 2 {
        let mut b = BytesMut::new(); b.extend_from_slice(&base[..len]);
        let r = catch_unwind(AssertUnwindSafe(|| { let p = b.split_to(at); (p.to_vec(), b.to_vec()) }));
        match r { Ok((p, rest)) => { if at > len || p != base[..at] || rest != base[at..len] { fail(format!("split_to len={} at={}", len, at)); } }
                  Err(_) => { if at <= len { fail(format!("split_to panicked len={} at={}", len, at)); } } }
        n += 1;
    } }
    // freeze, extend_from_slice, len, index, remaining_mut
    for len in 0..=base.len() {
        let mut b = BytesMut::new(); b.extend_from_slice(&base[..len]);
        if b.len() != len || (len > 0 && b[0] != base[0]) { fail(format!("BytesMut len/index {}", len)); }
        if b.remaining_mut() != isize::MAX as usize - len { fail(format!("remaining_mut for len {} is {}", len, b.remaining_mut())); }
        let f: Bytes = b.freeze(); if f.to_vec() != base[..len] { fail(format!("freeze {}", len)); }
        let f2 = Bytes::from(base[..len].to_vec()); if f2.to_vec() != base[..len] || f2.len() != len { fail(format!("Bytes::from {}", len)); }
        for a in 0..=len { if f2.slice(a..).to_vec() != base[a..len] { fail(format!("Bytes::slice {}..", a)); } }
        n += 1;
    }
    // byteorder reads over Cursor: Err iff fewer bytes remain; value = big/little-endian fold; position advances
    for len in 0..=8usize { for pos in 0..=len {
        let mk = || { let mut c = Cursor::new(base[..len].to_vec()); c.set_position(pos as u64); c };
        let rest = &base[pos..len];
        let mut c = mk(); match c.read_u8() { Ok(v) => if rest.len() < 1 || v != rest[0] || c.position() != pos as u64 + 1 { fail(format!("read_u8 len={} pos={}", len, pos)) }, Err(_) => if rest.len() >= 1 { fail("read_u8 err".into()) } }
        let mut c = mk(); match c.read_u16::<BigEndian>() { Ok(v) => if rest.len() < 2 || v != (rest[0] as u16) << 8 | rest[1] as u16 || c.position() != pos as u64 + 2 { fail(format!("read_u16 len={} pos={}", len, pos)) }, Err(_) => if rest.len() >= 2 { fail("read_u16 err".into()) } }
        let mut c = mk(); match c.read_u24::<BigEndian>() { Ok(v) => if rest.len() < 3 || v != (rest[0] as u32) << 16 | (rest[1] as u32) << 8 | rest[2] as u32 || c.position() != pos as u64 + 3 { fail(format!("read_u24 len={} pos={}", len, pos)) }, Err(_) => if rest.len() >= 3 { fail("read_u24 err".into()) } }
        let mut c = mk(); match c.read_u32::<BigEndian>() { Ok(v) => if rest.len() < 4 || v != u32::from_be_bytes([rest[0], rest[1], rest[2], rest[3]]) || c.position() != pos as u64 + 4 { fail(format!("read_u32 BE len={} pos={}", len, pos)) }, Err(_) => if rest.len() >= 4 { fail("read_u32 err".into()) } }
        let mut c = mk(); match c.read_u32::<LittleEndian>() { Ok(v) => if rest.len() < 4 || v != u32::from_le_bytes([rest[0], rest[1], rest[2], rest[3]]) { fail(format!("read_u32 LE len={} pos={}", len, pos)) }, Err(_) => if rest.len() >= 4 { fail("read_u32 LE err".into()) } }
        n += 5;
    } }
    // byteorder writes on an append-only Cursor<Vec<u8>> and on Vec<u8>: bytes appended are the big/little-endian encoding
    let vals32 = [0u32, 1, 0xFF, 0x100, 0xFFFF, 0x10000, 0xFFFFFE, 0xFFFFFF, 0x1000000, 0x7FFFFFFF, 0x80000000, 0xFFFFFFFF, 0x12345678];
    for &v in &vals32 {
        let mut c = Cursor::new(Vec::new()); c.write_u8(7).unwrap(); c.write_u32::<BigEndian>(v).unwrap(); c.write_u32::<LittleEndian>(v).unwrap(); c.write_all(&base[..3]).unwrap();
        let mut e = vec![7u8]; e.extend_from_slice(&v.to_be_bytes()); e.extend_from_slice(&v.to_le_bytes()); e.extend_from_slice(&base[..3]);
        if c.into_inner() != e { fail(format!("Cursor write_u32 {}", v)); }
        let r = catch_unwind(AssertUnwindSafe(|| { let mut c = Cursor::new(Vec::new()); c.write_u24::<BigEndian>(v).unwrap(); c.into_inner() }));
        match r { Ok(b) => if v > 0xFFFFFF || b != v.to_be_bytes()[1..] { fail(format!("write_u24 {}", v)) }, Err(_) => if v <= 0xFFFFFF { fail(format!("write_u24 panicked for {}", v)) } }
        let mut w: Vec<u8> = vec![1]; w.write_u16::<BigEndian>(v as u16).unwrap(); w.write_u32::<BigEndian>(v).unwrap(); w.write_f64::<BigEndian>(f64::from_bits(v as u64 * 0x1_0000_0001)).unwrap();
        let mut e = vec![1u8]; e.extend_from_slice(&(v as u16).to_be_bytes()); e.extend_from_slice(&v.to_be_bytes()); e.extend_from_slice(&(v as u64 * 0x1_0000_0001).to_be_bytes());
        if w != e { fail(format!("Vec write_u16/u32/f64 {}", v)); }
        n += 3;
    }
    // std: mem::replace, min/max, u32::wrapping_sub
    let mut x = 5u32; let old = std::mem::replace(&mut x, 9); if old != 5 || x != 9 { fail("mem::replace".into()); }
    if std::cmp::min(3usize, 4) != 3 || std::cmp::max(3u32, 4) != 4 { fail("min/max".into()); }
    if 5u32.wrapping_sub(0xFFFFFF) != ((5i64 - 0xFFFFFF).rem_euclid(1 << 32)) as u32 { fail("wrapping_sub".into()); }
    println!("NONE ({} prelude contract instances checked on the real bytes/byteorder/std)", n);
}
