// Witness finder for C13 (RTMP message bodies): the REAL MessagePayload::{from_rtmp_message, to_rtmp_message} against
// body layouts written here from RTMP 1.0 sections 5.4, 6.2, 7.1, 7.2 (literal numbers), over boundary values.
// usage: msg_witness [seed]   exit 1 + "WITNESS ..." if a failing input is found, else "NONE"
use bytes::Bytes;
use rml_amf0::Amf0Value;
use rml_rtmp::messages::{MessagePayload, PeerBandwidthLimitType, RtmpMessage, UserControlEventType};
use rml_rtmp::time::RtmpTimestamp;
fn fail(s: String) -> ! { println!("WITNESS {}", s); std::process::exit(1) }
fn payload(ty: u8, data: Vec<u8>) -> MessagePayload { MessagePayload { timestamp: RtmpTimestamp::new(7), type_id: ty, message_stream_id: 3, data: Bytes::from(data) } }
fn enc(m: RtmpMessage) -> Result<MessagePayload, String> {
    match std::panic::catch_unwind(std::panic::AssertUnwindSafe(|| MessagePayload::from_rtmp_message(m, RtmpTimestamp::new(7), 3))) {
        Err(_) => Err("PANIC".into()), Ok(Err(e)) => Err(format!("{}", e)), Ok(Ok(p)) => Ok(p) }
}
fn dec(p: &MessagePayload) -> Result<RtmpMessage, String> {
    match std::panic::catch_unwind(std::panic::AssertUnwindSafe(|| p.to_rtmp_message())) { Err(_) => Err("PANIC".into()), Ok(Err(e)) => Err(format!("{}", e)), Ok(Ok(m)) => Ok(m) }
}
fn expect_layout(m: RtmpMessage, ty: u8, body: Vec<u8>) {
    let d = format!("{:?}", m);
    let p = match enc(m.clone()) { Ok(p) => p, Err(e) => fail(format!("from_rtmp_message({}) failed: {}", d, e)) };
    if p.type_id != ty || p.data.to_vec() != body || p.message_stream_id != 3 || p.timestamp.value != 7 {
        fail(format!("from_rtmp_message({}) gave type {} body {:?} msid {} ts {}, the specification says type {} body {:?}", d, p.type_id, p.data.to_vec(), p.message_stream_id, p.timestamp.value, ty, body));
    }
    match dec(&payload(ty, body.clone())) { Ok(back) => if back != m { fail(format!("to_rtmp_message(type {}, {:?}) gave {:?}, expected {}", ty, body, back, d)) },
                                            Err(e) => fail(format!("to_rtmp_message(type {}, {:?}) failed: {} (expected {})", ty, body, e, d)) }
}
fn expect_err_dec(ty: u8, body: Vec<u8>, why: &str) {
    if let Ok(m) = dec(&payload(ty, body.clone())) { fail(format!("to_rtmp_message(type {}, {:?}) accepted ({:?}) although {}", ty, body, m, why)); }
}
fn main() {
    std::panic::set_hook(Box::new(|_| {}));
    battery();
    // CALL-HISTORY independence: conversions that are refused half-way (an argument that AMF0 cannot carry, behind values that
    // it can) must leave nothing behind; the whole battery is run again after them
    let mut bad_name = std::collections::HashMap::new(); bad_name.insert(String::new(), Amf0Value::Number(1.0));
    let refused = vec![
        RtmpMessage::Amf0Command { command_name: "publish".into(), transaction_id: 5.0, command_object: Amf0Value::Null, additional_arguments: vec![Amf0Value::Utf8String("stream".into()), Amf0Value::Utf8String("x".repeat(65536))] },
        RtmpMessage::Amf0Data { values: vec![Amf0Value::Utf8String("onMetaData".into()), Amf0Value::Number(1.0), Amf0Value::Object(bad_name)] },
        RtmpMessage::Amf0Data { values: vec![Amf0Value::StrictArray(vec![Amf0Value::Boolean(true), Amf0Value::Utf8String("y".repeat(70000))])] },
        RtmpMessage::SetChunkSize { size: 0xFFFF_FFFF },
    ];
    for m in refused { let _ = enc(m); }
    for (ty, b) in [(20u8, vec![2u8, 0, 7, b'c', b'o']), (18, vec![0x0A, 0, 0, 0, 5, 5]), (4, vec![0]), (1, vec![0xFF, 0xFF, 0xFF, 0xFF]), (20, vec![2, 0, 1, b'x', 0, 0, 0, 0, 0, 0, 0, 0, 0])] { let _ = dec(&payload(ty, b)); }
    battery();
    println!("NONE");
}
fn battery() {
    let u32s = [0u32, 1, 255, 256, 65535, 65536, 0xFFFFFF, 0x1000000, 0x7FFFFFFE, 0x7FFFFFFF, 0x80000000, 0x80000001, 0xFFFFFFFF, 0x12345678];
    for &v in &u32s {
        let be = v.to_be_bytes().to_vec();
        expect_layout(RtmpMessage::Abort { stream_id: v }, 2, be.clone());
        expect_layout(RtmpMessage::Acknowledgement { sequence_number: v }, 3, be.clone());
        expect_layout(RtmpMessage::WindowAcknowledgement { size: v }, 5, be.clone());
        if v <= 0x7FFFFFFF { expect_layout(RtmpMessage::SetChunkSize { size: v }, 1, be.clone()); }
        else {
            if enc(RtmpMessage::SetChunkSize { size: v }).is_ok() { fail(format!("from_rtmp_message(SetChunkSize {{ size: {} }}) accepted a chunk size above 2^31-1", v)); }
            expect_err_dec(1, be.clone(), "the chunk size is above 2^31-1");
        }
        for (lt, code) in [(PeerBandwidthLimitType::Hard, 0u8), (PeerBandwidthLimitType::Soft, 1), (PeerBandwidthLimitType::Dynamic, 2)] {
            let mut b = be.clone(); b.push(code);
            expect_layout(RtmpMessage::SetPeerBandwidth { size: v, limit_type: lt }, 6, b);
        }
        // user control events (6.2 / 7.1.7): u16 event code, then u32 fields
        let ev = |code: u16, fields: &[u32]| { let mut b = code.to_be_bytes().to_vec(); for f in fields { b.extend_from_slice(&f.to_be_bytes()); } b };
        for (et, code) in [(UserControlEventType::StreamBegin, 0u16), (UserControlEventType::StreamEof, 1), (UserControlEventType::StreamDry, 2), (UserControlEventType::StreamIsRecorded, 4),
                           (UserControlEventType::BufferEmpty, 31), (UserControlEventType::BufferReady, 32)] {
            expect_layout(RtmpMessage::UserControl { event_type: et, stream_id: Some(v), buffer_length: None, timestamp: None }, 4, ev(code, &[v]));
        }
        expect_layout(RtmpMessage::UserControl { event_type: UserControlEventType::SetBufferLength, stream_id: Some(v), buffer_length: Some(v ^ 0x55), timestamp: None }, 4, ev(3, &[v, v ^ 0x55]));
        expect_layout(RtmpMessage::UserControl { event_type: UserControlEventType::PingRequest, stream_id: None, buffer_length: None, timestamp: Some(RtmpTimestamp::new(v)) }, 4, ev(6, &[v]));
        expect_layout(RtmpMessage::UserControl { event_type: UserControlEventType::PingResponse, stream_id: None, buffer_length: None, timestamp: Some(RtmpTimestamp::new(v)) }, 4, ev(7, &[v]));
    }
    for code in [5u16, 8, 30, 33, 255, 256, 65535] { let mut b = code.to_be_bytes().to_vec(); b.extend_from_slice(&[0, 0, 0, 1]); expect_err_dec(4, b, "the user control event code is not defined"); }
    for code in [3u8, 4, 255] { expect_err_dec(6, vec![0, 0, 1, 0, code], "the limit type code is not 0, 1 or 2"); }
    for ty in [1u8, 2, 3, 5] { for n in 0..4 { expect_err_dec(ty, vec![0; n], "the body is shorter than 4 bytes"); } }
    for n in 0..5 { expect_err_dec(6, vec![0; n], "the body is shorter than 5 bytes"); }
    for n in 0..2 { expect_err_dec(4, vec![0; n], "the body is shorter than an event code"); }
    // audio / video / unknown pass through untouched, for all type ids without a decoder
    let blob: Vec<u8> = (0..40u8).collect();
    expect_layout(RtmpMessage::AudioData { data: Bytes::from(blob.clone()) }, 8, blob.clone());
    expect_layout(RtmpMessage::VideoData { data: Bytes::from(blob.clone()) }, 9, blob.clone());
    expect_layout(RtmpMessage::AudioData { data: Bytes::new() }, 8, vec![]);
    for ty in 0..=255u8 {
        if [1u8, 2, 3, 4, 5, 6, 8, 9, 15, 17, 18, 20].contains(&ty) { continue; }
        expect_layout(RtmpMessage::Unknown { type_id: ty, data: Bytes::from(blob.clone()) }, ty, blob.clone());
    }
    // AMF0 bodies: command (20) = name, transaction id, command object, arguments; data (18) = values; aliases 17 (optional leading 0) and 15
    let args = vec![Amf0Value::Utf8String("a".into()), Amf0Value::Number(1.5), Amf0Value::Boolean(true), Amf0Value::Null];
    let cmd = RtmpMessage::Amf0Command { command_name: "connect".into(), transaction_id: 2.0, command_object: Amf0Value::Null, additional_arguments: args.clone() };
    let mut body = vec![2u8, 0, 7]; body.extend_from_slice(b"connect"); body.push(0); body.extend_from_slice(&2.0f64.to_be_bytes()); body.push(5);
    body.extend_from_slice(&[2, 0, 1, b'a']); body.push(0); body.extend_from_slice(&1.5f64.to_be_bytes()); body.extend_from_slice(&[1, 1, 5]);
    expect_layout(cmd.clone(), 20, body.clone());
    for (ty, pre) in [(17u8, vec![0u8]), (17u8, vec![])] {
        let mut b = pre.clone(); b.extend_from_slice(&body);
        match dec(&payload(ty, b.clone())) { Ok(m) => if m != cmd { fail(format!("to_rtmp_message(type 17, leading bytes {:?}) gave {:?}, expected the AMF0 command", pre, m)) }, Err(e) => fail(format!("to_rtmp_message(type 17, leading bytes {:?} + AMF0 command) failed: {}", pre, e)) }
    }
    let data = RtmpMessage::Amf0Data { values: args.clone() };
    let dbody = body[14 + 0..].to_vec();   // the argument part: string, number, bool, null  (after name(10) + number(9) + null(1) = 20)
    let dbody = { let _ = dbody; body[20..].to_vec() };
    expect_layout(data.clone(), 18, dbody.clone());
    match dec(&payload(15, dbody.clone())) { Ok(m) => if m != data { fail(format!("to_rtmp_message(type 15) gave {:?}, expected the AMF0 data message", m)) }, Err(e) => fail(format!("to_rtmp_message(type 15) failed: {}", e)) }
    for short in [vec![], vec![2u8, 0, 1, b'x'], { let mut b = vec![2u8, 0, 1, b'x', 0]; b.extend_from_slice(&1.0f64.to_be_bytes()); b }] {
        if let Ok(m) = dec(&payload(20, short.clone())) { fail(format!("to_rtmp_message(type 20, {:?}) accepted a command with fewer than three values: {:?}", short, m)); }
    }
    // richer AMF0 bodies, bytes written by hand from AMF0 sections 2.2-2.12: empty string 02 00 00, strict array 0A + u32 count,
    // object 03 + (u16 name, value)* + 00 00 09, undefined 06, ECMA array 08 + u32 count + pairs + 00 00 09
    let mut props = std::collections::HashMap::new(); props.insert("k".to_string(), Amf0Value::Number(1.0));
    let rich = vec![Amf0Value::Utf8String(String::new()), Amf0Value::StrictArray(vec![Amf0Value::Null, Amf0Value::Boolean(true)]), Amf0Value::Object(props.clone()), Amf0Value::Undefined];
    let mut rb = vec![2u8, 0, 0]; rb.extend_from_slice(&[0x0A, 0, 0, 0, 2, 5, 1, 1]);
    rb.extend_from_slice(&[3, 0, 1, b'k', 0]); rb.extend_from_slice(&1.0f64.to_be_bytes()); rb.extend_from_slice(&[0, 0, 9]); rb.push(6);
    expect_layout(RtmpMessage::Amf0Data { values: rich.clone() }, 18, rb.clone());
    let mut cb = vec![2u8, 0, 0]; cb.push(0); cb.extend_from_slice(&0.0f64.to_be_bytes());
    cb.extend_from_slice(&[3, 0, 1, b'k', 0]); cb.extend_from_slice(&1.0f64.to_be_bytes()); cb.extend_from_slice(&[0, 0, 9]); cb.extend_from_slice(&rb);
    expect_layout(RtmpMessage::Amf0Command { command_name: String::new(), transaction_id: 0.0, command_object: Amf0Value::Object(props.clone()), additional_arguments: rich.clone() }, 20, cb);
    let mut np = std::collections::HashMap::new(); np.insert("k".to_string(), Amf0Value::Null);
    match dec(&payload(18, vec![8, 0, 0, 0, 1, 0, 1, b'k', 5, 0, 0, 9])) {
        Ok(m) => if m != (RtmpMessage::Amf0Data { values: vec![Amf0Value::Object(np.clone())] }) { fail(format!("to_rtmp_message(type 18, ECMA array {{k: null}}) gave {:?}", m)) },
        Err(e) => fail(format!("to_rtmp_message(type 18, ECMA array {{k: null}}) failed: {}", e)) }
    // non-ASCII text: the u16 prefix is the length in BYTES of the UTF-8 encoding (AMF0 1.3.1), for values and for property names
    {
        let sv = "é€✓"; let pn = "ключ";
        let mut o = std::collections::HashMap::new(); o.insert(pn.to_string(), Amf0Value::Utf8String(sv.to_string()));
        let mut b = vec![2u8, 0, sv.len() as u8]; b.extend_from_slice(sv.as_bytes());
        b.extend_from_slice(&[3, 0, pn.len() as u8]); b.extend_from_slice(pn.as_bytes()); b.extend_from_slice(&[2, 0, sv.len() as u8]); b.extend_from_slice(sv.as_bytes()); b.extend_from_slice(&[0, 0, 9]);
        expect_layout(RtmpMessage::Amf0Data { values: vec![Amf0Value::Utf8String(sv.to_string()), Amf0Value::Object(o.clone())] }, 18, b.clone());
        let mut c = vec![2u8, 0, sv.len() as u8]; c.extend_from_slice(sv.as_bytes()); c.push(0); c.extend_from_slice(&7.0f64.to_be_bytes()); c.extend_from_slice(&b[3 + sv.len()..]);
        expect_layout(RtmpMessage::Amf0Command { command_name: sv.to_string(), transaction_id: 7.0, command_object: Amf0Value::Object(o), additional_arguments: vec![] }, 20, c);
    }
    // BREADTH, not depth: many sibling EMPTY containers, then one more container, in a data and in a command body; whatever
    // from_rtmp_message produces, to_rtmp_message gives back (each empty strict array is the five bytes 0A 00 00 00 00)
    for n in [127usize, 128, 129, 200, 1000] {
        let mut vals: Vec<Amf0Value> = (0..n).map(|i| if i % 3 == 2 { Amf0Value::Object(std::collections::HashMap::new()) } else { Amf0Value::StrictArray(vec![]) }).collect();
        vals.push(Amf0Value::StrictArray(vec![Amf0Value::Null, Amf0Value::StrictArray(vec![])]));
        for m in [RtmpMessage::Amf0Data { values: vals.clone() }, RtmpMessage::Amf0Command { command_name: "c".into(), transaction_id: 1.0, command_object: Amf0Value::Null, additional_arguments: vals.clone() }] {
            let p = match enc(m.clone()) { Ok(p) => p, Err(e) => fail(format!("from_rtmp_message refused a body of {} empty containers followed by a container: {}", n, e)) };
            if n == 127 && p.type_id == 18 && p.data[..5] != [0x0A, 0, 0, 0, 0] { fail(format!("an empty strict array is not encoded as 0A 00 00 00 00 but {:02x?}", &p.data[..5])); }
            match dec(&p) { Ok(back) => if back != m { fail(format!("a body of {} empty containers followed by a container (type {}) does not decode to the message it was made from", n, p.type_id)) },
                            Err(e) => fail(format!("to_rtmp_message failed on the body from_rtmp_message produced for {} empty containers followed by a container (type {}): {}", n, p.type_id, e)) }
        }
    }
    // termination on lying counts: a strict array announcing 2^32-1 elements with none present must return promptly (Ok or Err)
    {
        let (tx, rx) = std::sync::mpsc::channel();
        std::thread::spawn(move || { let mut b = vec![]; for _ in 0..3 { b.extend_from_slice(&[0x0A, 0xFF, 0xFF, 0xFF, 0xFF]); } let _ = dec(&payload(18, b)); let _ = tx.send(()); });
        if rx.recv_timeout(std::time::Duration::from_secs(60)).is_err() { fail("to_rtmp_message(type 18, three nested strict arrays announcing 2^32-1 elements, no elements present) did not return within 60 s".into()); }
    }
}
