// Witness finder / known-answer replay for the handshake (C05, C11) on the REAL crate, public API only.
// It never decides a verdict; it turns a failed obligation of unit `hs` into a concrete failing input when it can,
// and (C11) cross-checks the one trusted contract of the unit -- calc_hmac == HMAC-SHA256(input, key) -- against an
// INDEPENDENT SHA-256/HMAC implementation written here from FIPS 180-4 / RFC 2104 (self-tested with RFC 4231 vectors).
// usage: hs_witness c11|c05 [seed]      exit 0 = nothing found, exit 1 = "WITNESS ..." line printed
use rml_rtmp::handshake::{Handshake, HandshakeProcessResult, PeerType};

// ---------- independent SHA-256 (FIPS 180-4) and HMAC (RFC 2104) ----------
const K256: [u32; 64] = [
    0x428a2f98, 0x71374491, 0xb5c0fbcf, 0xe9b5dba5, 0x3956c25b, 0x59f111f1, 0x923f82a4, 0xab1c5ed5, 0xd807aa98, 0x12835b01, 0x243185be, 0x550c7dc3,
    0x72be5d74, 0x80deb1fe, 0x9bdc06a7, 0xc19bf174, 0xe49b69c1, 0xefbe4786, 0x0fc19dc6, 0x240ca1cc, 0x2de92c6f, 0x4a7484aa, 0x5cb0a9dc, 0x76f988da,
    0x983e5152, 0xa831c66d, 0xb00327c8, 0xbf597fc7, 0xc6e00bf3, 0xd5a79147, 0x06ca6351, 0x14292967, 0x27b70a85, 0x2e1b2138, 0x4d2c6dfc, 0x53380d13,
    0x650a7354, 0x766a0abb, 0x81c2c92e, 0x92722c85, 0xa2bfe8a1, 0xa81a664b, 0xc24b8b70, 0xc76c51a3, 0xd192e819, 0xd6990624, 0xf40e3585, 0x106aa070,
    0x19a4c116, 0x1e376c08, 0x2748774c, 0x34b0bcb5, 0x391c0cb3, 0x4ed8aa4a, 0x5b9cca4f, 0x682e6ff3, 0x748f82ee, 0x78a5636f, 0x84c87814, 0x8cc70208,
    0x90befffa, 0xa4506ceb, 0xbef9a3f7, 0xc67178f2,
];
fn sha256(msg: &[u8]) -> [u8; 32] {
    let mut h: [u32; 8] = [0x6a09e667, 0xbb67ae85, 0x3c6ef372, 0xa54ff53a, 0x510e527f, 0x9b05688c, 0x1f83d9ab, 0x5be0cd19];
    let mut m = msg.to_vec();
    let bitlen = (msg.len() as u64) * 8;
    m.push(0x80);
    while m.len() % 64 != 56 { m.push(0); }
    m.extend_from_slice(&bitlen.to_be_bytes());
    for block in m.chunks(64) {
        let mut w = [0u32; 64];
        for i in 0..16 { w[i] = u32::from_be_bytes([block[4 * i], block[4 * i + 1], block[4 * i + 2], block[4 * i + 3]]); }
        for i in 16..64 {
            let s0 = w[i - 15].rotate_right(7) ^ w[i - 15].rotate_right(18) ^ (w[i - 15] >> 3);
            let s1 = w[i - 2].rotate_right(17) ^ w[i - 2].rotate_right(19) ^ (w[i - 2] >> 10);
            w[i] = w[i - 16].wrapping_add(s0).wrapping_add(w[i - 7]).wrapping_add(s1);
        }
        let (mut a, mut b, mut c, mut d, mut e, mut f, mut g, mut hh) = (h[0], h[1], h[2], h[3], h[4], h[5], h[6], h[7]);
        for i in 0..64 {
            let s1 = e.rotate_right(6) ^ e.rotate_right(11) ^ e.rotate_right(25);
            let ch = (e & f) ^ (!e & g);
            let t1 = hh.wrapping_add(s1).wrapping_add(ch).wrapping_add(K256[i]).wrapping_add(w[i]);
            let s0 = a.rotate_right(2) ^ a.rotate_right(13) ^ a.rotate_right(22);
            let maj = (a & b) ^ (a & c) ^ (b & c);
            let t2 = s0.wrapping_add(maj);
            hh = g; g = f; f = e; e = d.wrapping_add(t1); d = c; c = b; b = a; a = t1.wrapping_add(t2);
        }
        for (x, y) in h.iter_mut().zip([a, b, c, d, e, f, g, hh].iter()) { *x = x.wrapping_add(*y); }
    }
    let mut out = [0u8; 32];
    for i in 0..8 { out[4 * i..4 * i + 4].copy_from_slice(&h[i].to_be_bytes()); }
    out
}
fn hmac_sha256(key: &[u8], msg: &[u8]) -> [u8; 32] {
    let mut k = [0u8; 64];
    if key.len() > 64 { k[..32].copy_from_slice(&sha256(key)); } else { k[..key.len()].copy_from_slice(key); }
    let mut inner: Vec<u8> = k.iter().map(|b| b ^ 0x36).collect();
    inner.extend_from_slice(msg);
    let ih = sha256(&inner);
    let mut outer: Vec<u8> = k.iter().map(|b| b ^ 0x5c).collect();
    outer.extend_from_slice(&ih);
    sha256(&outer)
}
fn hex(b: &[u8]) -> String { b.iter().map(|x| format!("{:02x}", x)).collect() }
fn self_test() {
    // RFC 4231 test cases 1, 2 and 6 (key longer than the block size)
    let t1 = hmac_sha256(&[0x0b; 20], b"Hi There");
    assert_eq!(hex(&t1), "b0344c61d8db38535ca8afceaf0bf12b881dc200c9833da726e9376c2e32cff7");
    let t2 = hmac_sha256(b"Jefe", b"what do ya want for nothing?");
    assert_eq!(hex(&t2), "5bdcc146bf60754e6a042426089575c75a003f089d2739839dec58b964ec3843");
    let t6 = hmac_sha256(&[0xaa; 131], b"Test Using Larger Than Block-Size Key - Hash Key First");
    assert_eq!(hex(&t6), "60e431591ee0b67f0d8a26aacbf5b77f8e0bc6213728c5140546040f0ee37f54");
}

// ---------- S-HS literals (RTMPE clean-room text), not taken from the crate ----------
const KEY_FP: &[u8] = b"Genuine Adobe Flash Player 001";
const KEY_FMS: &[u8] = b"Genuine Adobe Flash Media Server 001";
const SUFFIX: [u8; 32] = [
    0xf0, 0xee, 0xc2, 0x4a, 0x80, 0x68, 0xbe, 0xe8, 0x2e, 0x00, 0xd0, 0xd1, 0x02, 0x9e, 0x7e, 0x57, 0x6e, 0xec, 0x5d, 0x2d, 0x29, 0x80, 0x6f, 0xab,
    0x93, 0xb8, 0xe6, 0x36, 0xcf, 0xeb, 0x31, 0xae,
];
fn off_client(p: &[u8]) -> usize { (p[8] as usize + p[9] as usize + p[10] as usize + p[11] as usize) % 728 + 12 }
fn off_server(p: &[u8]) -> usize { (p[772] as usize + p[773] as usize + p[774] as usize + p[775] as usize) % 728 + 776 }
fn own_key(server: bool) -> &'static [u8] { if server { KEY_FMS } else { KEY_FP } }
fn full_key(server: bool) -> Vec<u8> { let mut k = own_key(server).to_vec(); k.extend_from_slice(&SUFFIX); k }
fn digest_of(p: &[u8], off: usize, key: &[u8]) -> [u8; 32] {
    let mut m = p[..off].to_vec();
    m.extend_from_slice(&p[off + 32..]);
    hmac_sha256(key, &m)
}
struct Lcg(u64);
impl Lcg {
    fn next(&mut self) -> u32 { self.0 = self.0.wrapping_mul(6364136223846793005).wrapping_add(1442695040888963407); (self.0 >> 33) as u32 }
    fn bytes(&mut self, n: usize) -> Vec<u8> { (0..n).map(|_| self.next() as u8).collect() }
}
fn role(server: bool) -> PeerType { if server { PeerType::Server } else { PeerType::Client } }
fn fail(msg: String) -> ! { println!("WITNESS {}", msg); std::process::exit(1) }

// a packet 1 of a peer of the given role-scheme with the digest at exactly `target` (one of the 728 positions)
fn craft_p1(rng: &mut Lcg, client_scheme: bool, target: usize, key: &[u8]) -> Vec<u8> { craft_p1_sum(rng, client_scheme, target, key, 0) }
// same, with the four selector bytes summing to (target - base) + 728 * wraps (wraps = 1 exercises the modulo: sums 728..=1020)
fn craft_p1_sum(rng: &mut Lcg, client_scheme: bool, target: usize, key: &[u8], wraps: usize) -> Vec<u8> { craft_p1_full(rng, client_scheme, target, key, wraps, false) }
// zero_version: bytes 4..8 (the "version" / time2 field) are zero although the packet carries a digest: whether a packet 1 is
// digest-bearing is decided by the digest, not by that field
fn craft_p1_full(rng: &mut Lcg, client_scheme: bool, target: usize, key: &[u8], wraps: usize, zero_version: bool) -> Vec<u8> {
    let mut p = rng.bytes(1536);
    if zero_version { for b in p[4..8].iter_mut() { *b = 0; } }
    let (sel, base) = if client_scheme { (8, 12) } else { (772, 776) };
    let mut rest = target - base + 728 * wraps; // sum of the four selector bytes
    for i in 0..4 { let b = rest.min(255); p[sel + i] = b as u8; rest -= b; }
    let d = digest_of(&p, target, key);
    p[target..target + 32].copy_from_slice(&d);
    p
}

fn c11(seed: u64) {
    let mut rng = Lcg(seed ^ 0x9e3779b97f4a7c15);
    // (1) own packet 1, both roles, many random draws
    for &server in &[false, true] {
        for round in 0..400 {
            let mut h = Handshake::new(role(server));
            let out = match h.generate_outbound_p0_and_p1() { Ok(o) => o, Err(e) => fail(format!("c11 generate_outbound_p0_and_p1 returned Err({:?}) server={}", e, server)) };
            if out.len() != 1537 || out[0] != 3 { fail(format!("c11 p0+p1 has length {} first byte {} server={}", out.len(), out[0], server)); }
            let p1 = &out[1..];
            if p1[4..8] == [0, 0, 0, 0] { fail(format!("c11 generated packet 1 announces version 0.0.0.0 (digest-probing peers then treat it as digest-less) server={}", server)); }
            let off = if server { off_server(p1) } else { off_client(p1) };
            let d = digest_of(p1, off, own_key(server));
            if p1[off..off + 32] != d {
                fail(format!("c11 own packet 1 carries no valid HMAC-SHA256 digest: server={} round={} offset={} expected={} found={} p1={}",
                             server, round, off, hex(&d), hex(&p1[off..off + 32]), hex(p1)));
            }
        }
    }
    // (1b) EVERY packet 1 a Handshake hands out carries a valid digest, also when the generator is called again on the same
    //      instance (explicitly, or after process_bytes generated it implicitly), some milliseconds later
    for &server in &[false, true] {
        for implicit_first in [false, true] {
            let mut h = Handshake::new(role(server));
            if implicit_first { let _ = h.process_bytes(&[3]); }
            for call in 0..4 {
                if call > 0 || implicit_first { std::thread::sleep(std::time::Duration::from_millis(3)); }
                let out = match h.generate_outbound_p0_and_p1() { Ok(o) => o, Err(_) => break };
                if out.len() != 1537 || out[0] != 3 { fail(format!("c11 p0+p1 of call #{} has length {} server={}", call + 1, out.len(), server)); }
                let p1 = &out[1..];
                let off = if server { off_server(p1) } else { off_client(p1) };
                if p1[off..off + 32] != digest_of(p1, off, own_key(server)) {
                    fail(format!("c11 the packet 1 returned by call #{} of generate_outbound_p0_and_p1 on one Handshake (server={}, first generation {}) carries no valid HMAC-SHA256 digest at offset {}",
                                 call + 1, server, if implicit_first { "implicit, inside process_bytes" } else { "explicit" }, off));
                }
            }
        }
    }
    // (2) packet 2 in answer to a digest-bearing packet 1: both roles, both schemes, all 728 offsets
    for &server in &[false, true] {
        let peer_key = own_key(!server);
        for &client_scheme in &[true, false] {
            for kk in 0..(728usize + 293) {
                // kk < 728: selector sum == offset index; kk >= 728: selector sums 728..=1020, which wrap to indexes 0..=292
                let (k, wraps) = if kk < 728 { (kk, 0) } else { (kk - 728, 1) };
                let target = k + if client_scheme { 12 } else { 776 };
                let p1 = craft_p1_full(&mut rng, client_scheme, target, peer_key, wraps, kk % 5 == 0);
                let mut input = vec![3u8];
                input.extend_from_slice(&p1);
                let mut h = Handshake::new(role(server));
                let resp = match h.process_bytes(&input) {
                    Ok(HandshakeProcessResult::InProgress { response_bytes }) => response_bytes,
                    other => fail(format!("c11 process_bytes(3 ++ p1) gave {:?} server={} scheme={} offset={}", other.map(|_| "Completed"), server, if client_scheme { 1 } else { 2 }, target)),
                };
                if resp.len() != 1537 + 1536 { fail(format!("c11 response length {} (expected 3073) server={} offset={}", resp.len(), server, target)); }
                let p2 = &resp[1537..];
                // the digest the library must have found: the client-scheme position is probed first
                let o1 = off_client(&p1);
                let o2 = off_server(&p1);
                let v1 = p1[o1..o1 + 32] == digest_of(&p1, o1, peer_key);
                let v2 = p1[o2..o2 + 32] == digest_of(&p1, o2, peer_key);
                let mut ok = false;
                for (v, o) in [(v1, o1), (v2, o2)].iter() {
                    if *v {
                        let k1 = hmac_sha256(&full_key(server), &p1[*o..*o + 32]);
                        if p2[1504..] == hmac_sha256(&k1, &p2[..1504]) { ok = true; }
                    }
                }
                if !ok {
                    fail(format!("c11 packet 2 does not end with the valid response signature: server={} scheme={} offset={} valid1={} valid2={} p1={} p2={}",
                                 server, if client_scheme { 1 } else { 2 }, target, v1, v2, hex(&p1), hex(p2)));
                }
            }
        }
        // (3) digest-less packet 1: exact echo
        for round in 0..50 {
            let mut p1 = rng.bytes(1536);
            // original-handshake peers send zero here, but some (the crate's own comment names YouTube) send a version: both
            if round % 2 == 0 { for b in p1[4..8].iter_mut() { *b = 0; } } else if p1[4..8] == [0, 0, 0, 0] { p1[7] = 1; }
            let mut input = vec![3u8];
            input.extend_from_slice(&p1);
            let mut h = Handshake::new(role(server));
            match h.process_bytes(&input) {
                Ok(HandshakeProcessResult::InProgress { response_bytes }) => {
                    if response_bytes.len() != 3073 || response_bytes[1537..] != p1[..] {
                        fail(format!("c11 answer to a digest-less packet 1 is not an exact echo: server={} p1={} p2={}", server, hex(&p1), hex(&response_bytes[response_bytes.len().min(1537)..])));
                    }
                }
                other => fail(format!("c11 digest-less packet 1 gave {:?} server={}", other.map(|_| "Completed"), server)),
            }
        }
    }
    // (4) NEAR-MISS digests: a packet 1 whose digest field is a structured corruption of the right HMAC (one bit, one byte, the same
    //     bits flipped in bytes 8 / 16 / 24 apart, quarters or halves exchanged, the same garbage over both halves, all-zero, bitwise
    //     complement) carries NO valid digest (checked here independently, at both positions) and must be echoed exactly like any
    //     other digest-less packet
    for &server in &[false, true] {
        let peer_key = own_key(!server);
        for &client_scheme in &[true, false] { for &k in &[0usize, 1, 31, 292, 511, 726, 727] {
            let target = k + if client_scheme { 12 } else { 776 };
            let good = craft_p1(&mut rng, client_scheme, target, peer_key);
            let d: Vec<u8> = good[target..target + 32].to_vec();
            let mut pats: Vec<(String, Vec<u8>)> = vec![];
            { let mut x = d.clone(); x[0] ^= 1; pats.push(("one bit".into(), x)); }
            { let mut x = d.clone(); x[17] ^= 0xFF; pats.push(("one byte".into(), x)); }
            for gap in [8usize, 16, 24] { let mut x = d.clone(); x[3] ^= 0x40; x[3 + gap] ^= 0x40; pats.push((format!("the same bit in two bytes {} apart", gap), x)); }
            { let mut x = d.clone(); for i in 0..8 { x.swap(i, 8 + i); } pats.push(("first two quarters exchanged".into(), x)); }
            { let mut x = d.clone(); for i in 0..16 { x.swap(i, 16 + i); } pats.push(("halves exchanged".into(), x)); }
            { let mut x = d.clone(); for i in 0..16 { let g = (i as u8).wrapping_mul(37).wrapping_add(5); x[i] ^= g; x[16 + i] ^= g; } pats.push(("the same garbage over both halves".into(), x)); }
            { let mut x = d.clone(); for i in 0..8 { let g = 0xA5u8; x[i] ^= g; x[8 + i] ^= g; x[16 + i] ^= g; x[24 + i] ^= g; } pats.push(("the same garbage over all four quarters".into(), x)); }
            pats.push(("all zero".into(), vec![0u8; 32]));
            pats.push(("complement".into(), d.iter().map(|b| !b).collect()));
            { let mut x = d.clone(); x.reverse(); pats.push(("reversed".into(), x)); }
            for (what, bad) in pats {
                if bad == d { continue; }
                let mut p1 = good.clone(); p1[target..target + 32].copy_from_slice(&bad);
                let (o1, o2) = (off_client(&p1), off_server(&p1));
                if p1[o1..o1 + 32] == digest_of(&p1, o1, peer_key) || p1[o2..o2 + 32] == digest_of(&p1, o2, peer_key) { continue; }   // (an accidental valid digest: skip)
                let mut input = vec![3u8]; input.extend_from_slice(&p1);
                let mut h = Handshake::new(role(server));
                match h.process_bytes(&input) {
                    Ok(HandshakeProcessResult::InProgress { response_bytes }) => {
                        if response_bytes.len() != 3073 || response_bytes[1537..] != p1[..] {
                            fail(format!("c11 a packet 1 whose digest field is a corrupted HMAC ({}; server={} scheme={} offset={}) carries no valid digest but was not echoed exactly", what, server, if client_scheme { 1 } else { 2 }, target));
                        }
                    }
                    other => fail(format!("c11 packet 1 with a corrupted digest ({}) gave {:?} server={}", what, other.map(|_| "Completed"), server)),
                }
            }
        } }
    }
    println!("OK c11: 800 own packets 1, 2912 signed packets 2 (2 roles x 2 schemes x 728 offsets), 100 echoes, all valid against an independent HMAC-SHA256");
}

// closed form of the S-HS step function for a fresh endpoint fed `n` bytes in total: (response length, completed)
fn oracle(n: usize) -> (usize, bool) { (1537 + if n >= 1537 { 1536 } else { 0 }, n >= 3073) }

fn c05(seed: u64) {
    let mut rng = Lcg(seed ^ 0x243f6a8885a308d3);
    // (a) one endpoint against a scripted peer stream 3 ++ p1 ++ p2 ++ trailing, random partitions, both roles,
    //     digest-bearing and digest-less peers
    for round in 0..600 {
        let server = round % 2 == 0;
        let digestless = round % 3 == 0;
        // digest-less peers: original-handshake peers send zero in bytes 4..8, others (the crate's own comment names YouTube) a version
        let p1 = if digestless { let mut p = rng.bytes(1536); if round % 2 == 0 { for b in p[4..8].iter_mut() { *b = 0; } } else { p[4] |= 1; } p }
                 else { let cs = rng.next() % 2 == 0; let k = (rng.next() % 728) as usize; craft_p1(&mut rng, cs, k + if cs { 12 } else { 776 }, own_key(!server)) };
        let trailing_len = match rng.next() % 4 { 0 => 0, 1 => 1, 2 => 128, _ => (rng.next() % 4000) as usize };
        let trailing = rng.bytes(trailing_len);
        let mut h = Handshake::new(role(server));
        // an original-handshake peer ECHOES our packet 1 as its packet 2 (RTMP 1.0 section 5.2.4); other peers send their own bytes.
        // Echoing needs our packet 1 first, so those rounds generate it up front.
        let echo_p2 = (round / 6) % 2 == 1 || round % 4 == 1;
        let pre_generated = echo_p2 || rng.next() % 2 == 0;
        let mut sent = 0usize;
        let mut all_sent: Vec<u8> = Vec::new();
        if pre_generated { let v = h.generate_outbound_p0_and_p1().unwrap_or_default(); sent += v.len(); all_sent.extend(v); }
        let p2 = if echo_p2 && all_sent.len() >= 1537 { all_sent[1..1537].to_vec() } else { rng.bytes(1536) };
        let mut stream = vec![3u8];
        stream.extend_from_slice(&p1);
        stream.extend_from_slice(&p2);
        stream.extend_from_slice(&trailing);
        let mut pos = 0usize;
        let mut cuts = Vec::new();
        let mut done = false;
        while pos < stream.len() && !done {
            let n = match rng.next() % 8 { 0 => 1, 1 => 2, 2 => 1535, 3 => 1536, 4 => 1537, 5 => 0, 6 => stream.len(), _ => (rng.next() % 3000) as usize };
            // the caller stops feeding the handshake in the call that completes it: the last piece takes the rest
            let end = (pos + n).min(stream.len());
            let end = if end >= 3073 { stream.len() } else { end };
            cuts.push(end);
            let r = h.process_bytes(&stream[pos..end]);
            pos = end;
            let (exp_sent, exp_done) = oracle(pos);
            match r {
                Ok(HandshakeProcessResult::InProgress { response_bytes }) => {
                    sent += response_bytes.len(); all_sent.extend_from_slice(&response_bytes);
                    if exp_done || sent != exp_sent { fail(format!("c05 after {} peer bytes: InProgress, {} bytes sent so far (expected {}{}) server={} cuts={:?}", pos, sent, exp_sent, if exp_done { ", Completed" } else { "" }, server, cuts)); }
                }
                Ok(HandshakeProcessResult::Completed { response_bytes, remaining_bytes }) => {
                    sent += response_bytes.len(); all_sent.extend_from_slice(&response_bytes);
                    if !exp_done || sent != exp_sent { fail(format!("c05 Completed after {} peer bytes with {} bytes sent (expected completion at 3073, {} sent) server={} cuts={:?}", pos, sent, exp_sent, server, cuts)); }
                    if remaining_bytes != trailing { fail(format!("c05 leftover bytes differ: got {} bytes, expected {} bytes; first difference at {:?}; server={} digestless={} peer-echoes-our-packet-1={} cuts={:?}", remaining_bytes.len(), trailing.len(), remaining_bytes.iter().zip(trailing.iter()).position(|(a, b)| a != b), server, digestless, echo_p2, cuts)); }
                    done = true;
                }
                Err(e) => fail(format!("c05 process_bytes returned Err({:?}) after {} peer bytes, server={} digestless={} peer-echoes-our-packet-1={} cuts={:?}", e, pos, server, digestless, echo_p2, cuts)),
            }
        }
        if !done { fail(format!("c05 handshake not completed after all {} bytes, server={} cuts={:?}", stream.len(), server, cuts)); }
        // what an original-handshake (digest-less) peer checks before it completes: version byte 3 and its packet 1 echoed
        if all_sent.len() != 3073 || all_sent[0] != 3 { fail(format!("c05 emitted stream has {} bytes, first byte {:?} (expected 3073, 3) server={} cuts={:?}", all_sent.len(), all_sent.get(0), server, cuts)); }
        if digestless && all_sent[1537..] != p1[..] { fail(format!("c05 a digest-less peer does not get its packet 1 echoed back (it would fail the handshake): server={} cuts={:?} p1={}", server, cuts, hex(&p1))); }
    }
    // (b) a client and a server driven against each other, random fragmentation and interleaving, either side first,
    //     trailing application data behind each side's packet 2
    for round in 0..300 {
        let mut c = Handshake::new(PeerType::Client);
        let mut s = Handshake::new(PeerType::Server);
        let (mut to_s, mut to_c): (Vec<u8>, Vec<u8>) = (Vec::new(), Vec::new());
        let (mut c_sent, mut s_sent) = (0usize, 0usize);
        let (mut c_done, mut s_done) = (false, false);
        let (mut c_got, mut s_got) = (0usize, 0usize);
        let n_c = (rng.next() % 300) as usize; let app_c = rng.bytes(n_c);
        let n_s = (rng.next() % 300) as usize; let app_s = rng.bytes(n_s);
        let (mut c_left, mut s_left): (Vec<u8>, Vec<u8>) = (Vec::new(), Vec::new());
        match round % 3 {
            0 => { let v = c.generate_outbound_p0_and_p1().unwrap(); c_sent += v.len(); to_s.extend(v); }
            1 => { let v = s.generate_outbound_p0_and_p1().unwrap(); s_sent += v.len(); to_c.extend(v); }
            _ => {}
        }
        let mut steps = 0;
        while !(c_done && s_done) {
            steps += 1;
            if steps > 100000 { fail(format!("c05 two-party exchange does not complete (round {})", round)); }
            let pick_c = rng.next() % 2 == 0;
            let (h, inq, outq, sent, done, got, left, app, name) = if pick_c { (&mut c, &mut to_c, &mut to_s, &mut c_sent, &mut c_done, &mut c_got, &mut c_left, &app_c, "client") }
                                                                 else { (&mut s, &mut to_s, &mut to_c, &mut s_sent, &mut s_done, &mut s_got, &mut s_left, &app_s, "server") };
            if *done { continue; }
            let mut n = match rng.next() % 6 { 0 => 1, 1 => 0, 2 => 1536, 3 => inq.len(), _ => (rng.next() % 2000) as usize }.min(inq.len());
            // the completing call takes everything in flight (bytes after it go to the chunk layer, not to the handshake)
            if *got + n >= 3073 { n = inq.len(); }
            let piece: Vec<u8> = inq.drain(..n).collect();
            *got += piece.len();
            match h.process_bytes(&piece) {
                Ok(HandshakeProcessResult::InProgress { response_bytes }) => {
                    if *got >= 3073 { fail(format!("c05 {} still InProgress after {} peer bytes (round {})", name, got, round)); }
                    *sent += response_bytes.len(); outq.extend(response_bytes);
                }
                Ok(HandshakeProcessResult::Completed { response_bytes, remaining_bytes }) => {
                    if *got < 3073 { fail(format!("c05 {} reports completion after only {} peer bytes (round {})", name, got, round)); }
                    *sent += response_bytes.len(); outq.extend(response_bytes);
                    *left = remaining_bytes; *done = true;
                }
                Err(e) => fail(format!("c05 {} returned Err({:?}) after {} peer bytes (round {})", name, e, got, round)),
            }
            // application data follows the last handshake byte of a side immediately
            if *sent == 3073 { outq.extend_from_slice(app); *sent += 1_000_000; }
        }
        // whatever had not been delivered yet when a side completed is still in flight: leftover ++ in-flight == app data
        c_left.extend_from_slice(&to_c); s_left.extend_from_slice(&to_s);
        if c_sent % 1_000_000 != 3073 || s_sent % 1_000_000 != 3073 { fail(format!("c05 handshake bytes emitted: client {} server {} (expected 3073 each), round {}", c_sent % 1_000_000, s_sent % 1_000_000, round)); }
        if c_left != app_s || s_left != app_c { fail(format!("c05 trailing application data not handed back intact (round {}): client got {} of {} bytes, server got {} of {} bytes", round, c_left.len(), app_s.len(), s_left.len(), app_c.len())); }
    }
    println!("OK c05: 600 scripted-peer partitions and 300 two-party interleavings behave as the step function says");
}

fn main() {
    self_test();
    let args: Vec<String> = std::env::args().collect();
    let seed: u64 = args.get(2).and_then(|s| s.parse().ok()).unwrap_or(0);
    let r = std::panic::catch_unwind(|| match args.get(1).map(|s| s.as_str()) {
        Some("c11") => c11(seed),
        Some("c05") => c05(seed),
        _ => { eprintln!("usage: hs_witness c11|c05 [seed]"); std::process::exit(2); }
    });
    if r.is_err() { println!("WITNESS panic inside the handshake (see stderr)"); std::process::exit(1); }
}
