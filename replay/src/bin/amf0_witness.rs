// Witness finder for the AMF0 properties (C04, C12, C14, AMF0 parts of C03/C19): the REAL rml_amf0 against an independent
// reference encoder/decoder written here from the AMF0 specification (literal markers), on boundary inputs; plus a stack
// probe (child process, small thread stack) and an allocation probe (counting global allocator).
// usage: amf0_witness <c04|c12|c14> [seed]     exit 1 + "WITNESS ..." if a failing input is found, else "NONE"
use rml_amf0::{deserialize, serialize, Amf0Value};
use std::alloc::{GlobalAlloc, Layout, System};
use std::collections::HashMap;
use std::io::Cursor;
use std::sync::atomic::{AtomicUsize, Ordering};

struct Counting;
static LIVE: AtomicUsize = AtomicUsize::new(0);
static PEAK: AtomicUsize = AtomicUsize::new(0);
static BIGGEST: AtomicUsize = AtomicUsize::new(0);
unsafe impl GlobalAlloc for Counting {
    unsafe fn alloc(&self, l: Layout) -> *mut u8 {
        let p = System.alloc(l);
        if !p.is_null() { let n = LIVE.fetch_add(l.size(), Ordering::SeqCst) + l.size(); PEAK.fetch_max(n, Ordering::SeqCst); BIGGEST.fetch_max(l.size(), Ordering::SeqCst); }
        p
    }
    unsafe fn dealloc(&self, p: *mut u8, l: Layout) { LIVE.fetch_sub(l.size(), Ordering::SeqCst); System.dealloc(p, l) }
    unsafe fn realloc(&self, p: *mut u8, l: Layout, new: usize) -> *mut u8 {
        let q = System.realloc(p, l, new);
        if !q.is_null() { if new > l.size() { let n = LIVE.fetch_add(new - l.size(), Ordering::SeqCst) + new - l.size(); PEAK.fetch_max(n, Ordering::SeqCst); BIGGEST.fetch_max(new, Ordering::SeqCst); } else { LIVE.fetch_sub(l.size() - new, Ordering::SeqCst); } }
        q
    }
}
#[global_allocator]
static A: Counting = Counting;

fn fail(s: String) -> ! { println!("WITNESS {}", s); std::process::exit(1) }
fn show(v: &[Amf0Value]) -> String { let s = format!("{:?}", v); if s.len() > 300 { format!("{}...({} chars)", &s[..300], s.len()) } else { s } }

// ---------- reference encoder (objects: properties in the given order) ----------
#[derive(Clone, Debug)]
enum S { Num(u64), Bool(bool), Str(Vec<u8>), Obj(Vec<(Vec<u8>, S)>), Ecma(u32, Vec<(Vec<u8>, S)>), Arr(Vec<S>), Null, Undef }
fn renc(v: &S, out: &mut Vec<u8>) {
    match v {
        S::Num(b) => { out.push(0); out.extend_from_slice(&b.to_be_bytes()); }
        S::Bool(b) => { out.push(1); out.push(*b as u8); }
        S::Str(s) => { out.push(2); out.extend_from_slice(&(s.len() as u16).to_be_bytes()); out.extend_from_slice(s); }
        S::Obj(ps) => { out.push(3); for (k, x) in ps { out.extend_from_slice(&(k.len() as u16).to_be_bytes()); out.extend_from_slice(k); renc(x, out); } out.extend_from_slice(&[0, 0, 9]); }
        S::Ecma(c, ps) => { out.push(8); out.extend_from_slice(&c.to_be_bytes()); for (k, x) in ps { out.extend_from_slice(&(k.len() as u16).to_be_bytes()); out.extend_from_slice(k); renc(x, out); } out.extend_from_slice(&[0, 0, 9]); }
        S::Arr(xs) => { out.push(10); out.extend_from_slice(&(xs.len() as u32).to_be_bytes()); for x in xs { renc(x, out); } }
        S::Null => out.push(5),
        S::Undef => out.push(6),
    }
}
fn denote(v: &S) -> Amf0Value {
    match v {
        S::Num(b) => Amf0Value::Number(f64::from_bits(*b)), S::Bool(b) => Amf0Value::Boolean(*b), S::Str(s) => Amf0Value::Utf8String(String::from_utf8(s.clone()).unwrap()),
        S::Obj(ps) | S::Ecma(_, ps) => { let mut m = HashMap::new(); for (k, x) in ps { m.insert(String::from_utf8(k.clone()).unwrap(), denote(x)); } Amf0Value::Object(m) }
        S::Arr(xs) => Amf0Value::StrictArray(xs.iter().map(denote).collect()), S::Null => Amf0Value::Null, S::Undef => Amf0Value::Undefined,
    }
}
// equality with numbers by bit pattern
fn same(a: &Amf0Value, b: &Amf0Value) -> bool {
    match (a, b) {
        (Amf0Value::Number(x), Amf0Value::Number(y)) => x.to_bits() == y.to_bits(),
        (Amf0Value::Object(x), Amf0Value::Object(y)) => x.len() == y.len() && x.iter().all(|(k, v)| y.get(k).map(|w| same(v, w)).unwrap_or(false)),
        (Amf0Value::StrictArray(x), Amf0Value::StrictArray(y)) => x.len() == y.len() && x.iter().zip(y).all(|(p, q)| same(p, q)),
        (Amf0Value::Boolean(x), Amf0Value::Boolean(y)) => x == y, (Amf0Value::Utf8String(x), Amf0Value::Utf8String(y)) => x == y,
        (Amf0Value::Null, Amf0Value::Null) | (Amf0Value::Undefined, Amf0Value::Undefined) => true, _ => false,
    }
}
fn same_seq(a: &[Amf0Value], b: &[Amf0Value]) -> bool { a.len() == b.len() && a.iter().zip(b).all(|(p, q)| same(p, q)) }
fn dec_all(bytes: &[u8]) -> Result<(Vec<Amf0Value>, usize), String> {
    let mut c = Cursor::new(bytes.to_vec());
    match std::panic::catch_unwind(std::panic::AssertUnwindSafe(|| deserialize(&mut c))) { Err(_) => fail(format!("deserialize panicked on {} bytes {:02x?}", bytes.len(), &bytes[..std::cmp::min(bytes.len(), 80)])), Ok(Err(e)) => Err(format!("{}", e)), Ok(Ok(v)) => Ok((v, c.position() as usize)) }
}
fn nest(kind: u8, depth: usize) -> Amf0Value { let mut v = Amf0Value::Null; for _ in 0..depth { v = if kind == 0 { Amf0Value::StrictArray(vec![v]) } else { let mut m = HashMap::new(); m.insert("a".to_string(), v); Amf0Value::Object(m) }; } v }

fn boundary_values() -> Vec<Vec<Amf0Value>> {
    let mut wide: Vec<Vec<Amf0Value>> = vec![];
    // BREADTH, not depth: many sibling EMPTY containers followed by one more container (nothing is nested deeper than two levels)
    for n in [127usize, 128, 129, 200, 1000] {
        let mut a: Vec<Amf0Value> = (0..n).map(|_| Amf0Value::StrictArray(vec![])).collect(); a.push(Amf0Value::StrictArray(vec![Amf0Value::Null])); wide.push(a);
        let mut o: Vec<Amf0Value> = (0..n).map(|_| Amf0Value::Object(HashMap::new())).collect(); let mut m = HashMap::new(); m.insert("k".to_string(), Amf0Value::StrictArray(vec![])); o.push(Amf0Value::Object(m)); wide.push(o);
        wide.push(vec![Amf0Value::StrictArray((0..n).map(|i| if i % 2 == 0 { Amf0Value::StrictArray(vec![]) } else { Amf0Value::Object(HashMap::new()) }).collect()), Amf0Value::StrictArray(vec![Amf0Value::Object(HashMap::new())])]);
    }
    let mut out: Vec<Vec<Amf0Value>> = vec![];
    let nums = [0u64, 1, 0x8000000000000000, 0x7FF0000000000000, 0xFFF0000000000000, 0x7FF8000000000001, 0xFFFFFFFFFFFFFFFF, 0x3FF0000000000000, 0x400921FB54442D18];
    out.push(nums.iter().map(|b| Amf0Value::Number(f64::from_bits(*b))).collect());
    out.push(vec![Amf0Value::Boolean(true), Amf0Value::Boolean(false), Amf0Value::Null, Amf0Value::Undefined]);
    for n in [0usize, 1, 2, 255, 256, 65534, 65535, 65536, 65537, 80000] {
        out.push(vec![Amf0Value::Utf8String("a".repeat(n)), Amf0Value::Null]);
        // multi-byte strings: byte length n*2 / n*3, character count n
        out.push(vec![Amf0Value::Utf8String("é".repeat(n / 2)), Amf0Value::Boolean(true)]);
        out.push(vec![Amf0Value::Utf8String("€".repeat(n / 3)), Amf0Value::Utf8String("x".into())]);
        let mut m = HashMap::new(); m.insert("k".repeat(n), Amf0Value::Number(1.0)); out.push(vec![Amf0Value::Object(m)]);
        let mut m = HashMap::new(); m.insert("é".repeat(n / 2), Amf0Value::Null); out.push(vec![Amf0Value::Object(m), Amf0Value::Undefined]);
    }
    for n in [0usize, 1, 2, 255, 256, 1023, 1024, 1025, 4096, 4097, 5000, 70000] {
        out.push(vec![Amf0Value::StrictArray((0..n).map(|i| Amf0Value::Boolean(i % 2 == 0)).collect()), Amf0Value::Utf8String("after".into()), Amf0Value::Null]);
        let mut m = HashMap::new(); m.insert("arr".to_string(), Amf0Value::StrictArray((0..n).map(|i| Amf0Value::Number(i as f64)).collect())); m.insert("z".to_string(), Amf0Value::Null);
        out.push(vec![Amf0Value::Object(m)]);
    }
    let mut m = HashMap::new();
    for i in 0..40 { m.insert(format!("p{}", i), if i % 3 == 0 { Amf0Value::Number(i as f64) } else if i % 3 == 1 { Amf0Value::Utf8String(format!("v{}", i)) } else { Amf0Value::StrictArray(vec![Amf0Value::Null; i % 5]) }); }
    out.push(vec![Amf0Value::Object(m.clone()), Amf0Value::Object(HashMap::new()), Amf0Value::StrictArray(vec![Amf0Value::Object(m)])]);
    for d in [1usize, 2, 10, 127, 128] { out.push(vec![nest(0, d)]); out.push(vec![nest(1, d)]); }
    // values that have no AMF0 encoding (empty / over-long property name, over-long string) at every kind of position:
    // top level, object in object, in an array, object in an array, array in an object (validation must reach all of them)
    let obj = |k: String, v: Amf0Value| { let mut m = HashMap::new(); m.insert(k, v); Amf0Value::Object(m) };
    let bads: Vec<Amf0Value> = vec![obj(String::new(), Amf0Value::Number(1.0)), obj("n".repeat(65536), Amf0Value::Null), Amf0Value::Utf8String("s".repeat(65536)), Amf0Value::Utf8String("é".repeat(32768))];
    for b in bads {
        out.push(vec![b.clone()]);
        out.push(vec![obj("o".into(), b.clone())]);
        out.push(vec![Amf0Value::StrictArray(vec![Amf0Value::Null, b.clone()]), Amf0Value::Boolean(true)]);
        out.push(vec![Amf0Value::StrictArray(vec![obj("in".into(), b.clone())])]);
        out.push(vec![obj("arr".into(), Amf0Value::StrictArray(vec![b.clone()])), Amf0Value::Null]);
    }
    // multi-byte characters at every alignment relative to typical internal block sizes
    for pad in 0..4usize { for total in [4096usize, 8192, 12288] {
        let s = format!("{}{}", "a".repeat(pad), "€".repeat((total + 8) / 3));
        out.push(vec![Amf0Value::Utf8String(s.clone())]); out.push(vec![obj(s, Amf0Value::Null)]);
    } }
    out.extend(wide);
    out
}
fn c04() {
    for vs in boundary_values() {
        let enc = match std::panic::catch_unwind(std::panic::AssertUnwindSafe(|| serialize(&vs))) { Err(_) => fail(format!("[c04] serialize panicked on {}", show(&vs))), Ok(r) => r };
        if let Ok(bytes) = enc {
            match dec_all(&bytes) {
                Err(e) => fail(format!("[c04] serialize succeeded ({} bytes) but the bytes do not decode ({}): values {}", bytes.len(), e, show(&vs))),
                Ok((back, used)) => { if !same_seq(&back, &vs) { fail(format!("[c04] serialize succeeded but the bytes decode to a different sequence ({} values decoded, {} encoded): {}", back.len(), vs.len(), show(&vs))); }
                                      if used != bytes.len() { fail(format!("[c04] decoding stopped after {} of {} bytes: {}", used, bytes.len(), show(&vs))); } }
            }
        }
    }
    // CALL-HISTORY independence: the encoding of a sequence does not depend on what was encoded (or refused) before it
    let good = vec![Amf0Value::Utf8String("connect".into()), Amf0Value::Number(1.0), Amf0Value::Null, Amf0Value::Boolean(true)];
    let first = serialize(&good);
    let mut bad_name = HashMap::new(); bad_name.insert(String::new(), Amf0Value::Number(1.0));
    let refused: Vec<Vec<Amf0Value>> = vec![
        vec![Amf0Value::Number(5.0), Amf0Value::Utf8String("publish".into()), Amf0Value::Utf8String("x".repeat(65536))],
        vec![Amf0Value::Null, Amf0Value::Boolean(false), Amf0Value::Object(bad_name)],
        vec![Amf0Value::StrictArray(vec![Amf0Value::Number(1.0), Amf0Value::Utf8String("y".repeat(70000))])],
    ];
    for bad in refused {
        let r = std::panic::catch_unwind(std::panic::AssertUnwindSafe(|| serialize(&bad)));
        if r.is_err() { fail(format!("[c04] serialize panicked on {}", show(&bad))); }
        let again = serialize(&good);
        match (&first, &again) {
            (Ok(a), Ok(b)) => if a != b { fail(format!("[c04] the encoding of {} changed after an earlier serialize() call was refused ({}): {} bytes before, {} bytes after, which decode to {}", show(&good), show(&bad), a.len(), b.len(), dec_all(b).map(|(v, _)| show(&v)).unwrap_or_else(|e| e))); },
            (Ok(_), Err(e)) => fail(format!("[c04] {} is refused ({:?}) after an earlier serialize() call was refused ({}), but encoded before", show(&good), e, show(&bad))),
            _ => {}
        }
    }
    // ... nor does decoding: the same bytes decode to the same values after a failed decode
    if let Ok(bytes) = &first {
        let a = dec_all(bytes).map(|(v, _)| show(&v));
        let _ = dec_all(&[2, 0xFF, 0xFF, b'a']); let _ = dec_all(&[0x0A, 0, 0, 0, 9, 5]); let _ = dec_all(&[3, 0, 1, b'k', 0x0D]);
        let b = dec_all(bytes).map(|(v, _)| show(&v));
        if a != b { fail(format!("[c04] decoding the same {} bytes gave {:?} before and {:?} after failed decodes", bytes.len(), a, b)); }
    }
    // empty property name: must be refused (or round trip)
    let mut m = HashMap::new(); m.insert(String::new(), Amf0Value::Number(1.0));
    if let Ok(b) = serialize(&vec![Amf0Value::Object(m.clone())]) { if dec_all(&b).map(|(v, _)| same_seq(&v, &[Amf0Value::Object(m)])).unwrap_or(false) == false { fail("[c04] an object with an empty property name encodes but does not decode back".into()); } }
}
fn c12() {
    // encoder layout (objects with one property: no ordering freedom) and decoder on reference encodings
    let cases: Vec<S> = vec![S::Num(0x400921FB54442D18), S::Num(0x7FF8000000000001), S::Bool(true), S::Bool(false), S::Str(vec![]), S::Str(b"hello".to_vec()), S::Str("é€".as_bytes().to_vec()), S::Str(vec![b'a'; 65535]),
        S::Null, S::Undef, S::Obj(vec![]), S::Obj(vec![(b"k".to_vec(), S::Num(1))]), S::Obj(vec![(b"k".to_vec(), S::Obj(vec![(b"i".to_vec(), S::Str(b"v".to_vec()))]))]),
        S::Arr(vec![]), S::Arr(vec![S::Num(1), S::Str(b"x".to_vec()), S::Arr(vec![S::Null])]), S::Arr((0..300).map(|i| S::Num(i)).collect())];
    for s in &cases {
        let mut want = vec![]; renc(s, &mut want);
        let v = denote(s);
        match serialize(&vec![v.clone()]) { Ok(got) => if got != want { fail(format!("[c12] encoder output for {} is {:?}..., the AMF0 specification prescribes {:?}...", show(&[v.clone()]), &got[..got.len().min(24)], &want[..want.len().min(24)])); },
                                          Err(e) => fail(format!("[c12] encoder refuses {}: {}", show(&[v.clone()]), e)) }
    }
    // strings / names that have no AMF0 encoding must be refused
    for s in ["a".repeat(65536), "é".repeat(32768), "€".repeat(21846), "é".repeat(40000)] {
        if let Ok(b) = serialize(&vec![Amf0Value::Utf8String(s.clone())]) { fail(format!("[c12] a string of {} bytes ({} chars) was encoded ({} bytes, length prefix {:02x} {:02x}) instead of refused", s.len(), s.chars().count(), b.len(), b[1], b[2])); }
        let mut m = HashMap::new(); m.insert(s.clone(), Amf0Value::Null);
        if serialize(&vec![Amf0Value::Object(m)]).is_ok() { fail(format!("[c12] a property name of {} bytes was encoded instead of refused", s.len())); }
    }
    // decoder: conformant encodings incl. property order, repeated names, ECMA arrays with any count
    let dcases: Vec<S> = vec![S::Obj(vec![(b"b".to_vec(), S::Num(2)), (b"a".to_vec(), S::Num(1))]), S::Obj(vec![(b"a".to_vec(), S::Num(1)), (b"a".to_vec(), S::Num(2))]),
        S::Ecma(0, vec![(b"x".to_vec(), S::Bool(true))]), S::Ecma(7, vec![(b"x".to_vec(), S::Bool(true)), (b"y".to_vec(), S::Arr(vec![S::Null]))]), S::Ecma(0xFFFFFFFF, vec![]),
        S::Arr(vec![S::Ecma(1, vec![(b"k".to_vec(), S::Str(b"v".to_vec()))]), S::Obj(vec![])])];
    for s in cases.iter().chain(dcases.iter()) {
        let mut b = vec![]; renc(s, &mut b); b.push(5);
        match dec_all(&b) { Ok((v, used)) => if !same_seq(&v, &[denote(s), Amf0Value::Null]) || used != b.len() { fail(format!("[c12] decoder maps the conformant encoding of {:?} to {}", s, show(&v))) }, Err(e) => fail(format!("[c12] decoder rejects the conformant encoding of {:?}: {}", s, e)) }
    }
    for bv in 2..=255u8 { match dec_all(&[1, bv]) { Ok((v, _)) => if !same_seq(&v, &[Amf0Value::Boolean(true)]) { fail(format!("[c12] boolean byte {} decodes to {}", bv, show(&v))) }, Err(e) => fail(format!("[c12] boolean byte {} rejected: {}", bv, e)) } }
    // unsupported markers are errors WHEREVER the value sits: behind conformant top-level values, as a strict-array element, as a
    // property value (AMF0 markers 4 MovieClip, 7 Reference, 11 Date, 12 LongString, 13 Unsupported, 14 RecordSet, 15 XML, 16 TypedObject,
    // 17 AVM+ and every byte above are not supported by this decoder; 9 outside an object is not a value marker)
    {
        let prefixes: Vec<Vec<u8>> = vec![vec![], vec![5], vec![2, 0, 1, b'a'], { let mut v = vec![0u8]; v.extend_from_slice(&1.5f64.to_be_bytes()); v }, vec![1, 1, 5], vec![3, 0, 1, b'k', 5, 0, 0, 9], vec![0x0A, 0, 0, 0, 1, 5], vec![6, 5, 6]];
        for mk in 0..=255u8 { if [0u8, 1, 2, 3, 5, 6, 8, 9, 10].contains(&mk) { continue; }
            for pre in &prefixes {
                let tail = [mk, 0, 0, 0, 0, 0, 0, 0, 0, 0];
                let mut top = pre.clone(); top.extend_from_slice(&tail);
                let mut elem = pre.clone(); elem.extend_from_slice(&[0x0A, 0, 0, 0, 1]); elem.extend_from_slice(&tail);
                let mut pval = pre.clone(); pval.extend_from_slice(&[3, 0, 1, b'k']); pval.extend_from_slice(&tail); pval.extend_from_slice(&[0, 0, 9]);
                for (place, b) in [("a top-level value", top), ("a strict-array element", elem), ("a property value", pval)] {
                    if let Ok((v, _)) = dec_all(&b) { fail(format!("[c12] marker {} as {} behind {} conformant byte(s) {:02x?} was not reported as an error: decoded {}", mk, place, pre.len(), pre, show(&v))); }
                }
            }
        }
    }
    // unsupported markers are errors
    for mk in 0..=255u8 { if [0u8, 1, 2, 3, 5, 6, 8, 9, 10].contains(&mk) { continue; } if let Ok((v, _)) = dec_all(&[mk, 0, 0, 0, 0, 0, 0, 0, 0, 0]) { fail(format!("[c12] marker {} accepted: {}", mk, show(&v))); } }
    // truncation: every strict prefix of a valid encoding is rejected or decodes to a prefix of what was encoded
    let whole = vec![S::Str(b"hello".to_vec()), S::Bool(true), S::Arr(vec![S::Str(b"abc".to_vec()), S::Num(7)]), S::Obj(vec![(b"k".to_vec(), S::Str(b"vv".to_vec()))]), S::Num(9)];
    let mut b = vec![]; for s in &whole { renc(s, &mut b); }
    let full: Vec<Amf0Value> = whole.iter().map(denote).collect();
    for cut in 0..b.len() {
        if let Ok((v, _)) = dec_all(&b[..cut]) {
            let ok = v.len() <= full.len() && v.iter().enumerate().all(|(i, x)| same(x, &full[i]) || (i + 1 == v.len() && match (x, &full[i]) { (Amf0Value::StrictArray(p), Amf0Value::StrictArray(q)) => p.len() <= q.len() && p.iter().zip(q).all(|(a, c)| same(a, c)), _ => false }));
            if !ok { fail(format!("[c12] the first {} of {} bytes decode to {}, which is not a prefix of what was encoded", cut, b.len(), show(&v))); }
        }
    }
}
fn chain(kind: &str, depth: usize) -> Vec<u8> {
    let mut b = Vec::new();
    for i in 0..depth {
        let k = match kind { "arr" => 0, "obj" => 1, "ecma" => 2, _ => i % 3 };
        match k { 0 => b.extend_from_slice(&[0x0A, 0, 0, 0, 1]), 1 => b.extend_from_slice(&[0x03, 0, 1, b'a']), _ => b.extend_from_slice(&[0x08, 0, 0, 0, 1, 0, 1, b'a']) }
    }
    b.push(5); b
}
fn c14(exe: &str) {
    // stack: deep nesting decoded in a child process on a 512 KiB thread stack
    for kind in ["arr", "obj", "ecma", "mix"] { for depth in [100usize, 129, 5000, 400000] {
        let st = std::process::Command::new(exe).args(&["child", kind, &depth.to_string()]).output().expect("spawn");
        if !st.status.success() { fail(format!("[c14] decoding {} nested {} containers ({} input bytes) on a 512 KiB thread stack killed the process: status {:?} {}", depth, kind, chain(kind, depth).len(), st.status.code(), String::from_utf8_lossy(&st.stderr).lines().last().unwrap_or(""))); }
    } }
    // stack: a long run of ANY single byte value (a marker that recurses without being counted as nesting)
    for mk in 0..=255u8 {
        let st = std::process::Command::new(exe).args(&["childrun", &mk.to_string(), "300000"]).output().expect("spawn");
        if !st.status.success() { fail(format!("[c14] decoding a run of 300000 bytes 0x{:02X} on a 512 KiB thread stack killed the process: status {:?} {}", mk, st.status.code(), String::from_utf8_lossy(&st.stderr).lines().last().unwrap_or(""))); }
    }
    // memory: declared counts / lengths must not drive allocation
    let mut inputs: Vec<(String, Vec<u8>)> = vec![];
    for c in [1_000u32, 1_000_000, 0x7FFFFFFF, 0xFFFFFFFF] {
        let mut b = vec![0x0A]; b.extend_from_slice(&c.to_be_bytes()); inputs.push((format!("strict array declaring {} elements, none present", c), b.clone()));
        let mut b2 = vec![]; for _ in 0..200 { b2.push(0x0A); b2.extend_from_slice(&c.to_be_bytes()); b2.push(9); } inputs.push((format!("200 sibling strict arrays each declaring {} elements", c), b2));
        let mut e = vec![0x08]; e.extend_from_slice(&c.to_be_bytes()); e.extend_from_slice(&[0, 0, 9]); inputs.push((format!("ECMA array declaring {} entries", c), e));
    }
    // EVERY marker byte followed by a length / count field that lies (16-bit and 32-bit, big endian), then three bytes: a decoder
    // that gives a (new) marker a length-prefixed body must not size an allocation from the announced length
    for mk in 0..=255u8 {
        for c in [0x1000_0000u32, 0x0400_0000, 0x7FFF_FFFF, 0xFFFF_FFFF] {
            let mut b = vec![mk]; b.extend_from_slice(&c.to_be_bytes()); b.extend_from_slice(b"abc");
            inputs.push((format!("marker 0x{:02X} followed by the 32-bit field {} and three bytes", mk, c), b.clone()));
            let mut n = vec![0x0A, 0, 0, 0, 1]; n.extend_from_slice(&b); inputs.push((format!("strict array holding marker 0x{:02X} followed by the 32-bit field {} and three bytes", mk, c), n));
        }
    }
    // INVALID UTF-8 in string values and property names: texts of 1-, 2-, 3- and 4-byte characters, 0..70 characters long, damaged by a
    // stray Latin-1 byte at the end, a cut last character or an overwritten byte; every one must come back Ok or Err (no panic in the
    // decoder or in the error value it builds), as a top-level value, a property name, a property value and an array element
    {
        let alphabets: [&[char]; 5] = [&['a', 'Z', '0'], &['é', 'ß', 'Ж'], &['配', '信', 'テ'], &['😀', '𝄞'], &['a', 'é', '配', '😀']];
        for (ai, al) in alphabets.iter().enumerate() { for n in 0..70usize {
            let text: String = (0..n).map(|i| al[(i + ai) % al.len()]).collect();
            let raw = text.as_bytes().to_vec();
            let mut variants: Vec<Vec<u8>> = vec![];
            { let mut v = raw.clone(); v.push(0xE9); variants.push(v); }
            if !raw.is_empty() { let mut v = raw.clone(); v.pop(); variants.push(v); let mut w = raw.clone(); let k = w.len() / 2; w[k] = 0xFF; variants.push(w); let mut x = raw.clone(); x[0] = 0x80; variants.push(x); }
            for v in variants {
                if v.len() > 65535 { continue; }
                let l = (v.len() as u16).to_be_bytes();
                let mut top = vec![2u8]; top.extend_from_slice(&l); top.extend_from_slice(&v);
                let mut name = vec![3u8]; name.extend_from_slice(&l); name.extend_from_slice(&v); name.extend_from_slice(&[5, 0, 0, 9]);
                let mut pval = vec![3u8, 0, 1, b'k']; pval.extend_from_slice(&top); pval.extend_from_slice(&[0, 0, 9]);
                let mut elem = vec![0x0Au8, 0, 0, 0, 1]; elem.extend_from_slice(&top);
                for (place, b) in [("a top-level string", top.clone()), ("a property name", name), ("a property value", pval), ("an array element", elem)] {
                    let r = dec_all(&b);      // dec_all turns a panic into Err("PANIC")
                    if r == Err("PANIC".to_string()) { fail(format!("[c14] deserialize panicked on {} of {} bytes that is not valid UTF-8 ({} characters of alphabet {} damaged): {:02x?}", place, v.len(), n, ai, &b[..std::cmp::min(b.len(), 80)])); }
                }
            }
        } }
    }
    inputs.push(("string declaring 65535 bytes, none present".into(), vec![2, 0xFF, 0xFF]));
    inputs.push(("object property name declaring 65535 bytes".into(), vec![3, 0xFF, 0xFF]));
    for (what, b) in inputs {
        let before = LIVE.load(Ordering::SeqCst); PEAK.store(before, Ordering::SeqCst); BIGGEST.store(0, Ordering::SeqCst);
        let r = dec_all(&b);
        let peak = PEAK.load(Ordering::SeqCst).saturating_sub(before);
        let budget = 64 * b.len() + 256 * 1024;
        drop(r);
        if peak > budget { fail(format!("[c14] decoding {} input bytes ({}) had {} bytes of heap live at once (largest single request {}), budget {}", b.len(), what, peak, BIGGEST.load(Ordering::SeqCst), budget)); }
    }
}
// counts that lie: containers announcing up to 2^32-1 elements with none (or one) present, nested; the decoder must come
// back (Ok or Err) promptly - a loop that runs the announced count instead of stopping at the end of the input takes 2^32k steps
fn lying_counts(tag: &str) {
    let mut cases: Vec<(String, Vec<u8>)> = vec![];
    for k in 1..=4usize { let mut b = vec![]; for _ in 0..k { b.extend_from_slice(&[0x0A, 0xFF, 0xFF, 0xFF, 0xFF]); } cases.push((format!("{} nested strict arrays announcing 2^32-1 elements, nothing else", k), b)); }
    for k in 1..=3usize { let mut b = vec![]; for _ in 0..k { b.extend_from_slice(&[0x0A, 0x7F, 0xFF, 0xFF, 0xFF]); } b.push(5); cases.push((format!("{} nested strict arrays announcing 2^31-1 elements, one null present", k), b)); }
    for k in 1..=3usize { let mut b = vec![]; for _ in 0..k { b.extend_from_slice(&[0x0A, 0xFF, 0xFF, 0xFF, 0xFF]); } b.extend_from_slice(&[0, 0, 9]); cases.push((format!("{} nested strict arrays announcing 2^32-1 elements followed by an object-end marker", k), b)); }
    for k in 1..=3usize { let mut b = vec![]; for _ in 0..k { b.extend_from_slice(&[0x08, 0xFF, 0xFF, 0xFF, 0xFF, 0, 1, b'k']); } cases.push((format!("{} nested ECMA arrays announcing 2^32-1 entries, truncated after the first name", k), b)); }
    for (what, bytes) in cases {
        let (tx, rx) = std::sync::mpsc::channel();
        let b2 = bytes.clone();
        std::thread::spawn(move || { let mut c = Cursor::new(b2); let r = std::panic::catch_unwind(std::panic::AssertUnwindSafe(|| deserialize(&mut c).map(|v| v.len()))); let _ = tx.send(format!("{:?}", r.map_err(|_| "PANIC"))); });
        match rx.recv_timeout(std::time::Duration::from_secs(60)) {
            Err(_) => fail(format!("[{}] deserialize did not return within 60 s on {} bytes: {} ({:02x?})", tag, bytes.len(), what, bytes)),
            Ok(r) => if r.contains("PANIC") { fail(format!("[{}] deserialize panicked on {} ({:02x?})", tag, what, bytes)) },
        }
    }
}
fn main() {
    let a: Vec<String> = std::env::args().collect();
    if a.len() >= 4 && a[1] == "childrun" {
        let bytes = vec![a[2].parse::<u8>().unwrap(); a[3].parse().unwrap()];
        let h = std::thread::Builder::new().stack_size(512 * 1024).spawn(move || { let mut c = Cursor::new(bytes); let r = deserialize(&mut c); std::mem::forget(r); }).unwrap();
        h.join().unwrap(); return;
    }
    if a.len() >= 4 && a[1] == "child" {
        let bytes = chain(&a[2], a[3].parse().unwrap());
        let h = std::thread::Builder::new().stack_size(512 * 1024).spawn(move || { let mut c = Cursor::new(bytes); let r = deserialize(&mut c); std::mem::forget(r); }).unwrap();
        h.join().unwrap(); return;
    }
    std::panic::set_hook(Box::new(|_| {}));
    match a.get(1).map(|s| s.as_str()).unwrap_or("c04") { "c04" => c04(), "c12" => { c12(); lying_counts("c12") }, "c14" => { c14(&a[0]); lying_counts("c14") }, _ => {} }
    println!("NONE");
}
