// Reproducers for the client-session findings of unit `client` (run against the real crate in /repo).
extern crate bytes;
extern crate rml_amf0;
extern crate rml_rtmp;
use bytes::Bytes;
use rml_amf0::Amf0Value;
use rml_rtmp::chunk_io::{ChunkDeserializer, ChunkSerializer};
use rml_rtmp::messages::{MessagePayload, RtmpMessage, UserControlEventType};
use rml_rtmp::sessions::*;
use rml_rtmp::time::RtmpTimestamp;
use std::collections::HashMap;

struct Peer { ser: ChunkSerializer, de: ChunkDeserializer }
impl Peer {
    fn new() -> Peer { Peer { ser: ChunkSerializer::new(), de: ChunkDeserializer::new() } }
    fn enc(&mut self, m: RtmpMessage, msid: u32) -> Vec<u8> {
        let p = m.into_message_payload(RtmpTimestamp::new(0), msid).unwrap();
        self.ser.serialize(&p, false, false).unwrap().bytes
    }
    // decode everything a session returned; returns (type ids, transaction ids of commands)
    fn take(&mut self, results: &[ClientSessionResult]) -> Vec<MessagePayload> {
        let mut out = vec![];
        for r in results {
            if let ClientSessionResult::OutboundResponse(p) = r {
                let mut b: &[u8] = &p.bytes;
                loop {
                    match self.de.get_next_message(b) { Ok(Some(m)) => { out.push(m); b = &[]; } Ok(None) => break, Err(e) => panic!("peer cannot decode: {:?}", e) }
                }
            }
        }
        out
    }
}
fn result_cmd(name: &str, tx: f64, args: Vec<Amf0Value>) -> RtmpMessage {
    RtmpMessage::Amf0Command { command_name: name.to_string(), transaction_id: tx, command_object: Amf0Value::Null, additional_arguments: args }
}
fn tx_of(p: &MessagePayload) -> f64 {
    match p.to_rtmp_message().unwrap() { RtmpMessage::Amf0Command { transaction_id, .. } => transaction_id, _ => panic!("not a command") }
}
fn connected(config: ClientSessionConfig) -> (ClientSession, Peer) {
    let (mut s, _) = ClientSession::new(config).unwrap();
    let mut peer = Peer::new();
    let r = s.request_connection("app".to_string()).unwrap();
    let tx = tx_of(&peer.take(&[r])[0]);
    let bytes = peer.enc(result_cmd("_result", tx, vec![]), 0);
    let res = s.handle_input(&bytes).unwrap();
    peer.take(&res);
    (s, peer)
}
fn publishing() -> (ClientSession, Peer, u32) {
    let (mut s, mut peer) = connected(ClientSessionConfig::new());
    let r = s.request_publishing("key".to_string(), PublishRequestType::Live).unwrap();
    let tx = tx_of(&peer.take(&[r])[0]);
    let bytes = peer.enc(result_cmd("_result", tx, vec![Amf0Value::Number(5.0)]), 0);
    let res = s.handle_input(&bytes).unwrap();
    peer.take(&res);
    let mut st = HashMap::new();
    st.insert("code".to_string(), Amf0Value::Utf8String("NetStream.Publish.Start".to_string()));
    let bytes = peer.enc(result_cmd("onStatus", 0.0, vec![Amf0Value::Object(st)]), 5);
    let res = s.handle_input(&bytes).unwrap();
    assert!(res.iter().any(|r| matches!(r, ClientSessionResult::RaisedEvent(ClientSessionEvent::PublishRequestAccepted))));
    (s, peer, 5)
}

fn main() {
    // ---- D-C10-meta: StreamMetadataReceived is raised while PUBLISHING (no play requested or running) ----
    {
        let (mut s, mut peer, sid) = publishing();
        let mut props = HashMap::new();
        props.insert("width".to_string(), Amf0Value::Number(640.0));
        let m = RtmpMessage::Amf0Data { values: vec![Amf0Value::Utf8String("onMetaData".to_string()), Amf0Value::Object(props)] };
        let bytes = peer.enc(m, sid);
        let res = s.handle_input(&bytes).unwrap();
        let raised = res.iter().any(|r| matches!(r, ClientSessionResult::RaisedEvent(ClientSessionEvent::StreamMetadataReceived { .. })));
        println!("D-C10-meta   : state=Publishing, onMetaData on the active stream => StreamMetadataReceived raised: {}", raised);
        // for comparison: audio in the same state is an error
        let bytes = peer.enc(RtmpMessage::AudioData { data: Bytes::from(vec![1u8, 2, 3]) }, sid);
        println!("               (audio on the same stream in the same state => {:?})", s.handle_input(&bytes).map(|v| v.len()).map_err(|e| format!("{}", e)));
    }
    // ---- K-C15 inside ONE message (a): connect _result with an invalid configured chunk size ----
    {
        let mut cfg = ClientSessionConfig::new();
        cfg.chunk_size = 0;
        let (mut s, _) = ClientSession::new(cfg).unwrap();
        let mut peer = Peer::new();
        let r = s.request_connection("app".to_string()).unwrap();
        let tx = tx_of(&peer.take(&[r])[0]);
        let bytes = peer.enc(result_cmd("_result", tx, vec![]), 0);
        let res = s.handle_input(&bytes);
        println!("K-C15-connect: config.chunk_size=0, connect _result => {:?}", res.as_ref().map(|v| v.len()).map_err(|e| format!("{}", e)));
        // the WindowAcknowledgement packet was serialized and dropped: the session is Connected and its serializer's header
        // table for chunk stream 2 is ahead of the peer.  The next control message is compressed against the lost header:
        let (pkt, _) = s.send_ping_request().unwrap();
        let first = pkt.bytes[0];
        println!("               next packet on csid 2 starts with byte {:#04x} (format {}): the peer decodes it against a header it never received", first, first >> 6);
        println!("               peer's deserializer on that packet => {:?}", peer.de.get_next_message(&pkt.bytes).map(|m| m.map(|p| (p.type_id, p.data.len()))));
        // and request_playback is now permitted although the application only ever saw an Err
        println!("               request_playback after the Err => {:?}", s.request_playback("k".to_string()).is_ok());
    }
    // ---- K-C15 inside ONE message (b): createStream _result for a play request whose key AMF0 cannot carry ----
    {
        let (mut s, mut peer) = connected(ClientSessionConfig::new());
        let key: String = std::iter::repeat('k').take(70_000).collect();
        let r = s.request_playback(key).unwrap();
        let tx = tx_of(&peer.take(&[r])[0]);
        let bytes = peer.enc(result_cmd("_result", tx, vec![Amf0Value::Number(7.0)]), 0);
        let res = s.handle_input(&bytes);
        println!("K-C15-play   : 70,000-byte stream key, createStream _result => {:?}", res.as_ref().map(|v| v.len()).map_err(|e| format!("{}", e)));
        let (pkt, _) = s.send_ping_request().unwrap();
        let d = peer.de.get_next_message(&pkt.bytes);
        println!("               SetBufferLength was serialized and dropped; the following ping request decodes at the peer as {:?}", d.map(|m| m.map(|p| p.to_rtmp_message())));
        let _ = UserControlEventType::PingRequest;
    }
    // ---- R-C10-idle: a second request while a createStream transaction is outstanding is permitted ----
    {
        let (mut s, mut peer) = connected(ClientSessionConfig::new());
        let r1 = s.request_playback("a".to_string()).unwrap();
        let r2 = s.request_publishing("b".to_string(), PublishRequestType::Live);
        println!("R-C10-idle   : request_playback then request_publishing (no result yet) => second is {:?}", r2.as_ref().map(|_| "Ok").map_err(|e| format!("{}", e)));
        let t1 = tx_of(&peer.take(&[r1])[0]);
        let t2 = tx_of(&peer.take(&[r2.unwrap()])[0]);
        let mut bytes = peer.enc(result_cmd("_result", t1, vec![Amf0Value::Number(1.0)]), 0);
        bytes.extend(peer.enc(result_cmd("_result", t2, vec![Amf0Value::Number(2.0)]), 0));
        let res = s.handle_input(&bytes).unwrap();
        let sent = peer.take(&res);
        println!("               both results => {} packets sent (play on stream {}, publish on stream {}); stream 1 is never deleted", sent.len(), sent[1].message_stream_id, sent[2].message_stream_id);
    }
    // ---- R-C17-reannounce: after a window re-announcement to a smaller window more than W bytes are outstanding ----
    {
        let (mut s, mut peer) = connected(ClientSessionConfig::new());
        let b = peer.enc(RtmpMessage::WindowAcknowledgement { size: 1000 }, 0);
        s.handle_input(&b).unwrap();
        let filler = peer.enc(RtmpMessage::Unknown { type_id: 99, data: Bytes::from(vec![0u8; 880]) }, 0);
        let n1 = filler.len();
        let r = s.handle_input(&filler).unwrap();
        let b2 = peer.enc(RtmpMessage::WindowAcknowledgement { size: 100 }, 0);
        let n2 = b2.len();
        let r2 = s.handle_input(&b2).unwrap();
        let acks = |v: &Vec<ClientSessionResult>| v.iter().filter(|x| matches!(x, ClientSessionResult::OutboundResponse(_))).count();
        println!("R-C17-reannounce: W=1000, {} bytes => {} acks; then WindowAcknowledgement(100) in a {}-byte call => {} acks: {} bytes outstanding > new W=100 until the next call",
                 n1, acks(&r), n2, acks(&r2), n1 + n2);
        let r3 = s.handle_input(&[]).unwrap();
        println!("               next (empty) call => {} ack", acks(&r3));
    }
}
