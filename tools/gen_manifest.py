#!/usr/bin/env python3
"""writes MANIFEST.json from vc/config.json + vc/manifest_texts.json (single source of truth for what is claimed)"""
import json, os
ROOT = os.path.dirname(os.path.dirname(os.path.abspath(__file__)))
import sys
sys.path.insert(0, os.path.join(ROOT, "tools"))
import run_check
cfg = run_check.load_config()
texts = json.load(open(os.path.join(ROOT, "vc", "manifest_texts.json")))
td = os.path.join(ROOT, "vc", "manifest_texts.d")
if os.path.isdir(td):
    for f in sorted(os.listdir(td)):
        if f.endswith(".json"):
            texts["claimed"].update(json.load(open(os.path.join(td, f))))
props = [json.loads(l) for l in open(os.path.join(ROOT, "properties.jsonl"))]
checks = []
na = []
ready = set(json.load(open(os.path.join(ROOT, "vc", "claimed.json")))["claimed"])   # the lead's explicit list
for p in props:
    pid = p["id"]
    if pid in cfg["properties"] and pid in ready:
        t = texts["claimed"][pid]
        checks.append({
            "property_id": pid,
            "quick_cmd": "./check %s --tier quick" % pid,
            "thorough_cmd": "./check %s --tier thorough" % pid,
            "evidence_file": "/verif/evidence/%s.json" % pid,
            "replay_cmd_template": "./check %s --replay {path}" % pid,
            "engine": t.get("engine", "verus"),
            "level_claimed": {"category": "proof", "text": t["level_text"], "design_ref": t.get("design_ref", "DESIGN.md section 5")},
            "level_note": t["level_note"],
            "technique": t["technique"],
        })
    else:
        na.append({"property_id": pid, "reason": texts["not_applicable"].get(pid, "not built yet in this session (work in progress; see DESIGN.md section 9)")})
m = {
    "version": 1,
    "setup_cmd": "python3 tools/selfcheck.py",
    "hooks": {"guard": "kani", "enable": "no hooks in /repo: contracts live in /verif and are spliced into scratch copies; cfg(kani) (set by cargo-kani) guards injected Kani text that exists only in the scratch copy",
              "baseline_off_cmd": "cd /repo && cargo test --workspace --no-fail-fast --offline", "source_commits": [], "add_only": True},
    "engines": [
        {"name": "verus", "path": "tools/run_check.py", "serves_properties": [c["property_id"] for c in checks], "kind_free_text": "Verus 0.2026.09.13 + Z3 on functions extracted mechanically from /repo's working tree (tools/extract.py) with spliced contracts"},
        {"name": "kani", "path": "tools/kani_unit.py", "serves_properties": [c["property_id"] for c in checks if "kani" in c["engine"]], "kind_free_text": "Kani 0.68 function contracts injected into a scratch copy of /repo"},
    ],
    "checks": checks,
    "not_applicable": na,
    "notes": texts.get("notes", ""),
}
json.dump(m, open(os.path.join(ROOT, "MANIFEST.json"), "w"), indent=1)
print("claimed:", [c["property_id"] for c in checks], "n/a:", [x["property_id"] for x in na])
