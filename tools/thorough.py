"""Thorough tier extras: BOUNDED cross-checks on the real crate (differential runs of the witness finders against the
independent reference codec, replays of known findings).  They are labelled bounded and are never counted as proved;
they cross-check the trusted prelude (a wrong assumed contract on bytes/byteorder would show up here as a concrete
failing input although every proof obligation is discharged)."""
import os, subprocess, json
import replay
ROOT = os.path.dirname(os.path.dirname(os.path.abspath(__file__)))

def run(prop, pcfg, repo, scratch, seed, cfg):
    finders = list(replay.FINDERS.get(prop, []))
    if pcfg.get("units"): finders.append(("prelude_check", []))     # bounded cross-check of the trusted prelude vs. the real crates
    out = {"failures": [], "undecided": [], "bounded": []}
    if not finders: return [out]
    ok, err = replay.build(repo, scratch, [b for b, _ in finders])
    if not ok:
        out["undecided"].append("thorough: replay crate did not build: %s" % err[-300:]); return [out]
    known = [e for e in json.load(open(os.path.join(ROOT, "known_findings.json")))["findings"] if e["property"] == prop and e.get("status") == "known"]
    for b, args in finders:
        exe = replay.exe(scratch, b)
        for k in range(int(os.environ.get("VERIF_THOROUGH_SEEDS", "6"))):
            sd = str(seed + k)
            try:
                p = subprocess.run([exe] + args + [sd], capture_output=True, text=True, timeout=600)
            except subprocess.TimeoutExpired:
                out["bounded"].append({"check": b, "args": args, "seed": sd, "result": "timeout (600 s)"}); continue
            last = (p.stdout.strip().split("\n") or [""])[-1]
            rec = {"check": b, "args": args, "seed": sd, "exit": p.returncode, "result": last[:300],
                   "bound": "boundary-value grid + 300-600 pseudo-random scripts per seed (see replay/src/bin/%s.rs); bounded, not a proof" % b}
            out["bounded"].append(rec)
            if p.returncode != 0:
                is_known = (b == "c16_interleave" and any(e["id"] == "K-C16" for e in known))
                if is_known: continue     # replay of a listed known finding reproducing: expected
                out["failures"].append({"unit": "replay:" + b, "function": b, "message": "bounded cross-check found a failing input on the real crate",
                                        "clause": last[:600], "site": " ".join(args), "tags": [prop],
                                        "witness": {"found": True, "finder": b, "args": args, "input": last[:3000]}})
            if b in ("c16_interleave", "prelude_check"): break
    return [out]
