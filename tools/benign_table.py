#!/usr/bin/env python3
"""prints the markdown table of the false-alarm sweep (benign/*/meta.json) for DESIGN.md section 10"""
import json, glob, os
ROOT = os.path.dirname(os.path.dirname(os.path.abspath(__file__)))
notes = {}
try: notes = json.load(open(os.path.join(ROOT, "benign", "notes.json")))
except Exception: pass
print("| edit | kind | files | checks run | exit 0 | exit 2 (undecided; reason) | exit 1 (false alarm) |")
print("|---|---|---|---|---|---|---|")
tot = {0: 0, 1: 0, 2: 0}
for d in sorted(glob.glob(os.path.join(ROOT, "benign", "*", "meta.json"))):
    m = json.load(open(d)); ch = m.get("checks", {})
    ok = [c for c, v in ch.items() if v["exit"] == 0]; un = [c for c, v in ch.items() if v["exit"] == 2]; fa = [c for c, v in ch.items() if v["exit"] == 1]
    for v in ch.values(): tot[v["exit"]] = tot.get(v["exit"], 0) + 1
    why = ""
    for c in un:
        ls = [l for l in ch[c]["lines"] if l.startswith("UNDECIDED")]
        if ls: why = ls[0][10:150]; break
    kind = {"P": "local clean-up", "Q": "equivalent expressions", "R": "helper extracted / inlined", "S": "loop / data-flow style", "T": "texts, derives, comments", "U": "named constants / literal forms", "V": "tidiness / performance tweak", "W": "redundant defensive check added / removed"}.get(m["id"][-1], "")
    print("| %s | %s | %s | %d | %s | %s | %s |" % (m["id"], notes.get(m["id"], kind), ", ".join(os.path.basename(f) for f in m["changed_files"]), len(ch), ", ".join(ok) or "-", (", ".join(un) + (" (" + why + ")" if why else "")) or "-", ", ".join(fa) or "-"))
print()
print("totals over all (edit, check) pairs: exit 0: %d, exit 2: %d, exit 1: %d" % (tot[0], tot[2], tot[1]))
