#!/bin/bash
# quick variant of benignpass.sh: every stored behaviour-preserving edit against the check of ITS OWN property plus the properties that
# share its obligations most directly (sessions: C02; chunk serializer: C01; AMF0: C04; handshake: C11)
# usage: tools/benignpass_own.sh [jobs] [egrep filter on the edit id]
cd "$(dirname "$0")/.."
extra() { case "$1" in C09|C10) echo "$1,C15";; C17) echo "C17";; C07) echo "C07,C01";; C06) echo "C06,C15";; C12) echo "C12,C04";; C04) echo "C04,C12";; C05) echo "C05,C11";; C13) echo "C13";; *) echo "$1";; esac; }
export -f extra
ls benign | grep -E "${2:-.}" | xargs -P "${1:-4}" -I{} bash -c 'id={}; p=${id%-*}; python3 tools/benigntest.py $id benign/$id/patch.diff --no-suite --jobs 2 --checks $(extra $p) 2>&1 | grep -E "^check " | tr "\n" " "; echo " <- $id"'
