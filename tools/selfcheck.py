#!/usr/bin/env python3
"""setup: nothing to build; verify the tools this framework needs are present"""
import shutil, sys, subprocess
missing = [t for t in ("verus", "cargo", "python3", "rsync") if not shutil.which(t)]
try:
    import tomllib  # noqa (python >= 3.11, used by tools/kani_unit.py)
except Exception:
    missing.append("python>=3.11 (tomllib)")
r = subprocess.run("cargo kani --version", shell=True, capture_output=True, text=True)
if r.returncode != 0: missing.append("cargo kani")
if missing:
    print("missing tools:", missing); sys.exit(1)
print("ok")
