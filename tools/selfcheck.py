#!/usr/bin/env python3
"""setup: nothing to build; verify the tools this framework needs are present"""
import shutil, sys, subprocess
missing = [t for t in ("verus", "cargo", "python3") if not shutil.which(t)]
if missing:
    print("missing tools:", missing); sys.exit(1)
print("ok")
