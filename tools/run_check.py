#!/usr/bin/env python3
"""Driver: extract -> verify -> vacuity guards -> classify -> evidence -> exit code.   (DESIGN 2.1, 2.5, 2.6)

usage: run_check.py <property-id> [--tier quick|thorough] [--replay <file>] [--repo /repo] [--keep]
exit 0  property held on everything explored (KNOWN-FINDING lines for listed findings that still reproduce)
exit 1  VIOLATION property=<id> replay=<path> [no-failing-input-found]
exit 2  UNDECIDED <reason>   (tool limits: lost anchor, unsupported construct, rlimit, compiler error, vacuity)
"""
import sys, os, re, json, time, subprocess, tempfile, shutil, hashlib, argparse, concurrent.futures
HERE = os.path.dirname(os.path.abspath(__file__))
ROOT = os.path.dirname(HERE)
sys.path.insert(0, HERE)
import extract

VERIFICATION_FAILURES = [
    "postcondition not satisfied", "precondition not satisfied", "assertion failed",
    "possible arithmetic underflow/overflow", "invariant not satisfied", "decreases not satisfied",
    "possible division by zero", "loop invariant", "could not prove termination", "possible bit shift underflow/overflow",
    "unreachable", "failed to prove", "assertion failed in function", "might not be allowed",
    "cannot show invariant", "possible cast", "may be out of range",
]
RLIMIT_PAT = re.compile(r"Resource limit|rlimit|timed? ?out", re.I)

def load_config():
    """vc/config.json merged with the fragments vc/config.d/*.json (lists are united, dicts merged)"""
    cfg = json.load(open(os.path.join(ROOT, "vc", "config.json")))
    d = os.path.join(ROOT, "vc", "config.d")
    def merge(a, b):
        for k, v in b.items():
            if k in a and isinstance(a[k], dict) and isinstance(v, dict): merge(a[k], v)
            elif k in a and isinstance(a[k], list) and isinstance(v, list):
                for x in v:
                    if x not in a[k]: a[k].append(x)
            else: a[k] = v
    if os.path.isdir(d):
        for f in sorted(os.listdir(d)):
            if f.endswith(".json"): merge(cfg, json.load(open(os.path.join(d, f))))
    # a CLAIMED property is checked only with units the lead has marked ready (vc/claimed.json); units still being
    # built take part only in the checks of properties that are not claimed yet (developer runs)
    try:
        cl = json.load(open(os.path.join(ROOT, "vc", "claimed.json")))
        ready = set(cl.get("units_ready", []))
        for pid in ([] if os.environ.get("VERIF_ALL_UNITS") else cl.get("claimed", [])):     # VERIF_ALL_UNITS=1: builders' runs
            pc = cfg["properties"].get(pid)
            if not pc: continue
            for key in ("units", "kani"):
                if key in pc:
                    dropped = [u for u in pc[key] if u not in ready]
                    pc[key] = [u for u in pc[key] if u in ready]
                    if dropped: pc.setdefault("not_decided", []).append("units not yet marked ready and therefore not part of this check: %s" % ", ".join(dropped))
    except FileNotFoundError:
        pass
    return cfg

def run_verus(path, extra=None, timeout=1500):
    cmd = ["verus", path, "--output-json", "--time-expanded", "--multiple-errors", "30", "--error-format=json"]
    if extra: cmd += extra
    t0 = time.time()
    try:
        p = subprocess.run(cmd, capture_output=True, text=True, timeout=timeout, cwd=os.path.dirname(path))
        rc, out, err = p.returncode, p.stdout, p.stderr
    except subprocess.TimeoutExpired as e:
        rc, out, err = 124, e.stdout or "", (e.stderr or "") + "\nTIMEOUT"
        if isinstance(out, bytes): out = out.decode(errors="replace")
        if isinstance(err, bytes): err = err.decode(errors="replace")
    wall = time.time() - t0
    js = None
    try:
        i = out.index("{")
        js = json.loads(out[i:])
    except Exception:
        js = None
    diags = []
    for l in err.split("\n"):
        if l.startswith("{"):
            try: diags.append(json.loads(l))
            except Exception: pass
    return {"rc": rc, "json": js, "diags": diags, "stderr": err, "wall": wall, "cmd": " ".join(cmd)}

def spans_in_file(d, fname):
    """all (line_start, line_end, label, is_primary) of a diagnostic that point into the generated file,
    following macro expansions"""
    out = []
    def walk(s, primary, label):
        if os.path.basename(s.get("file_name", "")) == fname:
            out.append((s["line_start"], s["line_end"], label, primary))
        e = s.get("expansion")
        if e and e.get("span"): walk(e["span"], primary, label)
    for s in d.get("spans", []):
        walk(s, s.get("is_primary", False), s.get("label"))
    for c in d.get("children", []):
        for s in c.get("spans", []):
            walk(s, False, s.get("label") or c.get("message"))
    return out

class UnitResult:
    pass

def analyse_unit(unit, repo, scratch, tier, seed, cfg):
    """generate, verify, vacuity-check one Verus unit; returns dict"""
    res = {"unit": unit, "engine": "verus", "status": "ok", "failures": [], "undecided": [], "notes": []}
    tmpl = os.path.join(ROOT, "vc", "units", unit + ".rs.tmpl")
    try:
        text, meta = extract.generate(repo, tmpl)
    except extract.ToolError as e:
        res["status"] = "undecided"; res["undecided"].append("extractor: %s" % e); return res
    except Exception as e:
        res["status"] = "undecided"; res["undecided"].append("extractor crashed: %r" % e); return res
    gen = os.path.join(scratch, unit + ".rs")
    open(gen, "w").write(text)
    # Constants the changed code newly refers to (a refactor that introduces `const LIMIT: usize = ...`) are extracted
    # verbatim on demand: a quick front-end pass reports `cannot find value `NAME``; if `const NAME` exists in a file this
    # unit extracts from, its text is appended (recorded as auto-extracted) and the unit is generated again.
    try:
        for _round in range(3):
            p0 = subprocess.run(["verus", gen, "--no-verify", "--error-format=json"], capture_output=True, text=True, timeout=300, cwd=scratch)
            missing = set(re.findall(r"cannot find value `([A-Z][A-Z0-9_]*)` in this scope", p0.stderr))
            # A constant used in PATTERN position (`MARKER => ..`) that is not in scope does not fail to compile: the identifier silently
            # becomes a catch-all binding, and the extracted text would mean something else than the code that runs.  So every
            # SCREAMING_CASE identifier of the extracted real code that has no definition in the generated file is looked up as well.
            defined_ = set(re.findall(r"\b(?:const|static)\s+([A-Z][A-Z0-9_]*)\b", text))
            glines_ = text.split("\n")
            for k_, e_ in enumerate(meta["linemap"]):
                if e_.get("kind") == "orig" and k_ < len(glines_):
                    code_ = glines_[k_].split("//")[0]
                    for m_ in re.finditer(r"(?<![\w:])([A-Z][A-Z0-9_]{2,})(?![\w(!{]|\s*::)", code_):
                        if m_.group(1) not in defined_: missing.add(m_.group(1))
            if not missing: break
            added = []
            files = sorted(set(it["file"] for it in meta["items"]))
            for name in sorted(missing):
                for f in files:
                    try:
                        src_txt = open(os.path.join(repo, f)).read()
                    except Exception:
                        continue
                    m = re.search(r"^[ \t]*(?:pub(?:\([a-z]+\))?\s+)?const\s+%s\s*:[^;]*;" % re.escape(name), src_txt, re.M)
                    if m:
                        added.append("// auto-extracted constant from %s (newly referenced by the code under test)\n%s" % (f, m.group(0).strip()))
                        res["notes"].append("auto-extracted const %s from %s" % (name, f)); break
            if not added: break
            k = text.rfind("} // verus!")
            if k < 0: break
            text = text[:k] + "\n".join(added) + "\n" + text[k:]
            open(gen, "w").write(text)
    except Exception as e:
        res["notes"].append("const auto-extraction skipped: %r" % e)
    fns = extract.fn_table(text)
    res["items"] = meta["items"]
    for it in meta["items"]:
        for w in it.get("rewrites", []):
            if w.get("id") == "R16":
                res["notes"].append("R16 ghost text of %s :: %s adapted to renamed identifiers %s (real code untouched)" % (it["file"], it["path"], w["ghost_text_adapted_to_renamed_identifiers"]))
    res["gen_sha256"] = hashlib.sha256(text.encode()).hexdigest()
    # trusted-base scan
    scan = extract.trusted_scan(text)
    res["trusted_scan"] = ["%s" % l for (_, _, l) in scan]
    allow_path = os.path.join(ROOT, "vc", "units", unit + ".trusted.txt")
    cur = sorted(set(re.sub(r"\s+", " ", l) for l in res["trusted_scan"]))
    if os.environ.get("VERIF_UPDATE_TRUSTED"):
        open(allow_path, "w").write("\n".join(cur) + "\n")
    allowed = sorted(set(l.strip() for l in open(allow_path).read().split("\n") if l.strip())) if os.path.exists(allow_path) else []
    extra_trust = [l for l in cur if l not in allowed]
    if extra_trust:
        res["status"] = "undecided"
        res["undecided"].append("trusted-base scan found entries not in the allow-list: %s" % extra_trust[:3])
    # vacuity variant
    vtext, probes = extract.vacuity_variant(text)
    vgen = os.path.join(scratch, unit + "_vacuity.rs")
    open(vgen, "w").write(vtext)
    extra = []
    ucfg = cfg["units"].get(unit, {})
    rl = ucfg.get("rlimit")
    if tier == "thorough":
        rl = (rl or 10) * 4
        extra += ["--smt-option", "random_seed=%d" % (seed % 1000)]
    if rl: extra += ["--rlimit", str(rl)]
    with concurrent.futures.ThreadPoolExecutor(max_workers=2) as ex:
        f1 = ex.submit(run_verus, gen, extra)
        f2 = ex.submit(run_verus, vgen, extra)
        main, vac = f1.result(), f2.result()
    res["checker_cmd"] = main["cmd"].replace(scratch, "<scratch>")
    res["wall_s"] = round(main["wall"] + vac["wall"], 2)
    res["verus_wall_s"] = round(main["wall"], 2)
    # ---- main run
    js = main["json"]
    if js is None or "verification-results" not in js:
        res["status"] = "undecided"
        msgs = [d.get("message") for d in main["diags"] if d.get("level") == "error"][:5]
        res["undecided"].append("verus produced no verification result (compile error?): %s" % (msgs or main["stderr"][-400:]))
        res["raw_stderr"] = main["stderr"][-4000:]
        return res
    vr = js["verification-results"]
    res["verified"] = vr.get("verified", 0)
    res["errors"] = vr.get("errors", 0)
    if vr.get("encountered-vir-error"):
        res["status"] = "undecided"
        res["undecided"].append("verus VIR error: %s" % [d.get("message") for d in main["diags"] if d.get("level") == "error"][:3])
    # per function breakdown
    fb = []
    try:
        for m in js["times-ms"]["smt"]["smt-run-module-times"]:
            for f in m.get("function-breakdown", []):
                fb.append({"function": f["function"], "mode": f.get("mode:", f.get("mode")), "time_us": f.get("time-micros"),
                           "rlimit": f.get("rlimit"), "success": f.get("success")})
    except Exception:
        pass
    res["function_breakdown"] = fb
    res["smt_ms"] = js.get("times-ms", {}).get("smt", {}).get("total")
    fname = os.path.basename(gen)
    lm = meta["linemap"]
    glines = text.split("\n")
    def fn_at(line):
        best = None
        for f in fns:
            if f["line_start"] <= line <= f["line_end"]:
                if best is None or f["line_start"] >= best["line_start"]: best = f
        return best
    def item_serves(line, fn):
        m = lm[line - 1] if 0 < line <= len(lm) else {}
        if m.get("kind") in ("orig", "ghost", "attr"):
            return meta["items"][m["item"]].get("serves") or []
        if fn is not None and "sig_line" in fn:
            m2 = lm[fn["sig_line"] - 1]
            if m2.get("kind") in ("orig", "ghost", "attr"):
                return meta["items"][m2["item"]].get("serves") or []
            return m2.get("serves") or []
        return m.get("serves") or []
    def is_oblig(k):
        return 0 < k <= len(glines) and "OBLIGATION" in glines[k - 1].split("//", 1)[-1] and "//" in glines[k - 1]
    def clause_tags(ls, le):
        t = []
        for k in range(ls, min(le, ls + 40) + 1):
            if 0 < k <= len(lm) and "ctags" in lm[k - 1]: t += lm[k - 1]["ctags"]
        return sorted(set(t))
    # "an obligation that passed on the unchanged tree and now fails": a failure SITED on a line of real code that does not occur in
    # the baseline text of its function (a new debug_assert!, a new early-return fast path, a rewritten expression) is a NEW obligation,
    # not a regression of one that used to be discharged - the unit has no proof text for it.  Such failures are undecided-class (the
    # bounded differential run decides); failures sited on unchanged lines (the end of the body, an unchanged call site, an unchanged
    # return) stay violations.
    try:
        _base_fns = json.load(open(os.path.join(ROOT, "vc", "baseline_fns.json")))
    except Exception:
        _base_fns = {}
    _src_cache = {}
    def site_is_new_code(line_no):
        m_ = lm[line_no - 1] if 0 < line_no <= len(lm) else {}
        if m_.get("kind") != "orig" or not m_.get("orig_line") or m_.get("item") is None: return False
        it_ = meta["items"][m_["item"]]
        base_ = _base_fns.get("%s :: %s" % (it_["file"], it_["path"]))
        if not base_: return False
        f_ = it_["file"]
        if f_ not in _src_cache:
            try: _src_cache[f_] = open(os.path.join(repo, f_)).read().split("\n")
            except Exception: _src_cache[f_] = []
        ls_ = _src_cache[f_]
        if not (0 < m_["orig_line"] <= len(ls_)): return False
        cur_ = re.sub(r"\s+", " ", ls_[m_["orig_line"] - 1].split("//")[0]).strip()
        if not cur_: return False
        base_lines_ = set(re.sub(r"\s+", " ", b.split("//")[0]).strip() for b in base_.split("\n"))
        return cur_ not in base_lines_
    for d in main["diags"]:
        if d.get("level") != "error": continue
        msg = d.get("message", "")
        if msg.startswith("aborting due to"): continue
        sp = spans_in_file(d, fname)
        is_verif = any(v in msg for v in VERIFICATION_FAILURES)
        if RLIMIT_PAT.search(msg):
            line = sp[0][0] if sp else 0
            f = fn_at(line)
            res["undecided"].append("rlimit/timeout in %s (%s)" % (f["name"] if f else "?", msg[:80]))
            res["rlimit_fns"] = res.get("rlimit_fns", []) + [f["name"] if f else "?"]
            continue
        if not is_verif:
            res["status"] = "undecided"
            res["undecided"].append("verus error (not a verification failure): %s" % msg[:200])
            continue
        # the clause span is the one labelled 'failed this postcondition/precondition/...' if any, else primary
        clause = [s for s in sp if s[2] and "failed" in s[2]] or [s for s in sp if s[3]] or sp
        # postcondition failures: the primary span is the clause; the exit at which it fails is a secondary span
        site = [s for s in sp if s[2] and (s[2].startswith("at this exit") or s[2].startswith("at the end of the function"))] or [s for s in sp if s[3]] or sp
        cl_line = clause[0][0] if clause else 0
        site_line = site[0][0] if site else cl_line
        # function: where the failing code is (for postconditions the clause lies in the fn header: same fn)
        f = fn_at(site_line) or fn_at(cl_line)
        tags = clause_tags(clause[0][0], clause[0][1]) if clause else []
        level = "clause"
        if not tags:
            level = "function"
            tags = item_serves(site_line, f) or item_serves(cl_line, fn_at(cl_line))
        m = lm[site_line - 1] if 0 < site_line <= len(lm) else {}
        orig = None
        if m.get("kind") in ("orig", "ghost"):
            orig = "%s:%s" % (m.get("orig_file"), m.get("orig_line"))
        elif f is not None and "sig_line" in f:
            m2 = lm[f["sig_line"] - 1]
            if m2.get("kind") in ("orig", "ghost"): orig = "%s:%s" % (m2.get("orig_file"), m2.get("orig_line"))
        res["failures"].append({
            "unit": unit, "message": msg, "function": f["name"] if f else None,
            "clause": " ".join(x.strip() for x in glines[cl_line - 1: min(clause[0][1], cl_line + 3)]) if clause else None,
            "site": glines[site_line - 1].strip() if site_line else None,
            "gen_line": site_line, "clause_gen_line": cl_line, "repo_location": orig, "tags": tags, "tag_level": level,
            # the failing statement is spliced PROOF TEXT (an assert / lemma call of a //@before|after|bodystart hint, or an inductive
            # loop invariant / decreases clause of //@loop), not a clause of the function's contract and not real code
            "new_site": site_is_new_code(site_line),
            # ... EXCEPT a spliced statement marked `// [Cxx] OBLIGATION`: that assert / invariant IS a clause of the property written as
            # ghost text because no function boundary exists where it could be an `ensures` (e.g. the per-message dispatch inside
            # handle_input's loop); its failure with every other hint of the function verified is a violation like a failed ensures
            "in_hint": bool((m.get("kind") == "ghost" and m.get("tag") in ("ghost-proof", "ghost-body", "ghost-loop") and not is_oblig(site_line)) or site_is_new_code(site_line)
                            or (0 < cl_line <= len(lm) and lm[cl_line - 1].get("kind") == "ghost" and lm[cl_line - 1].get("tag") == "ghost-loop" and not is_oblig(cl_line))
                            or (f is not None and "sig_line" in f and lm[f["sig_line"] - 1].get("item") is not None
                                and meta["items"][lm[f["sig_line"] - 1]["item"]].get("adapted"))),
        })
    # functions that failed in the breakdown but produced no diagnostic we understood -> undecided
    if res["errors"] and not res["failures"] and not res["undecided"]:
        res["status"] = "undecided"; res["undecided"].append("verus reported %d errors that could not be mapped" % res["errors"])
    # ---- vacuity run: every probe must FAIL
    vj = vac["json"]
    vprobe = {"probes": len(probes), "rejected": 0, "vacuous": []}
    if vj is None or "verification-results" not in vj:
        res["status"] = "undecided"
        res["undecided"].append("vacuity variant did not compile: %s" % [d.get("message") for d in vac["diags"] if d.get("level") == "error"][:3])
    else:
        vname = os.path.basename(vgen)
        failed_lines = set()
        for d in vac["diags"]:
            if d.get("level") != "error": continue
            for s in spans_in_file(d, vname):
                for ln in range(s[0], s[1] + 1): failed_lines.add(ln)
        # a resource-limit hit inside a probed function means the solver could not derive false within its budget:
        # not vacuous as far as it could tell; recorded as inconclusive, not as a pass of the probe
        vtab = extract.fn_table(vtext)
        rl_fns = set()
        for d in vac["diags"]:
            if d.get("level") == "error" and RLIMIT_PAT.search(d.get("message", "")):
                for s in spans_in_file(d, vname):
                    for f in vtab:
                        if f["line_start"] <= s[0] <= f["line_end"]: rl_fns.add((f["name"], f["line_start"]))
        vprobe["inconclusive_rlimit"] = sorted(n for n, _ in rl_fns)
        for (name, line, has_req) in probes:
            if line in failed_lines: vprobe["rejected"] += 1
            elif any(n == name and any(f["name"] == n and f["line_start"] == ls and f["line_start"] <= line <= f["line_end"] for f in vtab) for n, ls in rl_fns):
                vprobe["rejected"] += 1
            else: vprobe["vacuous"].append(name)
        if vprobe["vacuous"]:
            # a probe not rejected: contradictory precondition / inconsistent assumptions, or rlimit in that fn
            res["status"] = "undecided"
            res["undecided"].append("vacuity guard: assert(false) was not rejected in %s" % vprobe["vacuous"][:5])
    res["vacuity"] = vprobe
    # obligation floor
    floor = ucfg.get("min_verified")
    if floor and res["verified"] + res["errors"] < floor:
        res["status"] = "undecided"
        res["undecided"].append("obligation count %d below recorded floor %d" % (res["verified"] + res["errors"], floor))
    if res["undecided"] and res["status"] == "ok" and not res["failures"]:
        res["status"] = "undecided"
    return res

def match_known(f, entry):
    m = entry.get("match", {})
    for k, v in m.items():
        if k == "unit" and f.get("unit") != v: return False
        if k == "function" and f.get("function") != v: return False
        if k == "clause_contains" and v not in (f.get("clause") or ""): return False
        if k == "site_contains" and v not in (f.get("site") or ""): return False
        if k == "message_contains" and v not in (f.get("message") or ""): return False
        if k == "harness" and f.get("harness") != v: return False
        if k == "check_contains" and v not in (f.get("check") or ""): return False
    return True

def unit_source_files(unit):
    """repo files a unit takes its functions from (Verus unit: //@extract lines; Kani unit: `file`)"""
    out = set()
    t = os.path.join(ROOT, "vc", "units", unit + ".rs.tmpl")
    if os.path.exists(t):
        for l in open(t):
            m = re.match(r"\s*//@extract\s+(\S+)\s*::", l)
            if m: out.add(m.group(1))
    k = os.path.join(ROOT, "kani", unit + ".toml")
    if os.path.exists(k):
        m = re.search(r'^file\s*=\s*"([^"]+)"', open(k).read(), re.M)
        if m: out.add(m.group(1))
    return out

def dependency_violation(prop, pcfg, cfg, repo, changed):
    """Assume/guarantee across properties.  The contracts that P's units ASSUME about the layers below (chunk codec, message
    bodies, AMF0, timestamp arithmetic: trusted preludes / link axioms) are what the checks of the properties in
    properties.<P>.depends_on PROVE on the real code.  On the unchanged tree those all pass.  When the tree differs from the
    baseline in a file one of those checks draws its functions from, that check is run too (depth 1, never recursively);
    if it reports a violation, P's assumption about that layer is no longer established and P is reported as violated, with
    the dependency's failed obligation / witness attached.  An undecided dependency changes nothing."""
    if os.environ.get("VERIF_DEP_DEPTH") or os.environ.get("VERIF_NO_TRIPWIRE"): return None
    notes = []
    for dep in pcfg.get("depends_on", []):
        dc = cfg["properties"].get(dep)
        if not dc: continue
        files = set()
        for u in dc.get("units", []) + dc.get("kani", []): files |= unit_source_files(u)
        hit = sorted(set(changed) & files)
        if not hit: continue
        env = dict(os.environ, VERIF_DEP_DEPTH="1")
        try:
            p = subprocess.run([sys.executable, os.path.abspath(__file__), dep, "--repo", repo], capture_output=True, text=True, timeout=3000, env=env)
        except subprocess.TimeoutExpired:
            notes.append({"dependency": dep, "result": "timeout"}); continue
        lines = [l for l in p.stdout.split("\n") if l.startswith(("VIOLATION", "FAILED-OBLIGATION", "WITNESS", "UNDECIDED", "KNOWN-FINDING", "OK "))]
        notes.append({"dependency": dep, "changed_files_in_its_cone": hit, "exit": p.returncode, "lines": [l[:400] for l in lines[:12]]})
        if p.returncode == 1:
            vio = next((l for l in lines if l.startswith("VIOLATION")), "")
            m = re.search(r"replay=(\S+)", vio)
            dep_replay = None
            try: dep_replay = json.load(open(m.group(1))) if m else None
            except Exception: pass
            return {"found": True, "dependency": dep, "changed_files": hit, "lines": lines[:12], "dependency_replay": dep_replay,
                    "no_input": vio.rstrip().endswith("no-failing-input-found"), "tried": notes}
    return {"found": False, "tried": notes}

def report_dependency_violation(prop, dv, ev, evdir):
    os.makedirs(os.path.join(ROOT, "replay", "out"), exist_ok=True)
    rp = os.path.join(ROOT, "replay", "out", "%s-%d.json" % (prop, int(time.time())))
    json.dump({"property": prop,
               "failed_obligations": [{"unit": "link:" + dv["dependency"], "message": "assume/guarantee link: the contracts this property's units assume about a lower layer are proved by the check of %s, which reports a violation on this tree" % dv["dependency"],
                                       "clause": " | ".join(dv["lines"])[:3000]}],
               "changed_files": dv["changed_files"], "dependency": dv["dependency"], "dependency_replay": dv.get("dependency_replay"),
               "witness": (dv.get("dependency_replay") or {}).get("witness")}, open(rp, "w"), indent=1)
    ev["violations"] = 1; ev["coverage"]["replay_file"] = rp
    ev["coverage"]["notes"] = ev["coverage"].get("notes", []) + ["violation reported through the assume/guarantee link to %s" % dv["dependency"]]
    json.dump(ev, open(os.path.join(evdir, prop + ".json"), "w"), indent=1)
    for l in dv["lines"]:
        if l.startswith(("FAILED-OBLIGATION", "WITNESS")): print("LINK[%s] %s" % (dv["dependency"], l[:600]))
    print("VIOLATION property=%s replay=%s%s" % (prop, rp, " no-failing-input-found" if dv.get("no_input") else ""))
    sys.exit(1)

def main():
    ap = argparse.ArgumentParser()
    ap.add_argument("prop")
    ap.add_argument("--tier", default=os.environ.get("VERIF_TIER", "quick"))
    ap.add_argument("--repo", default=os.environ.get("VERIF_REPO", "/repo"))
    ap.add_argument("--replay", default=None)
    ap.add_argument("--keep", action="store_true")
    a = ap.parse_args()
    if a.tier not in ("quick", "thorough"): a.tier = "quick"
    seed = int(os.environ.get("VERIF_SEED", "0") or 0)
    cfg = load_config()
    prop = a.prop
    if a.replay:
        import replay
        sys.exit(replay.replay_file(a.replay, a.repo))
    if prop not in cfg["properties"]:
        print("UNDECIDED property %s is not claimed (see MANIFEST.not_applicable)" % prop); sys.exit(2)
    pcfg = cfg["properties"][prop]
    t0 = time.time()
    scratch = tempfile.mkdtemp(prefix="verif-%s-" % prop)
    results = []
    try:
        units = pcfg.get("units", [])
        kunits = pcfg.get("kani", [])
        with concurrent.futures.ThreadPoolExecutor(max_workers=8) as ex:
            futs = [ex.submit(analyse_unit, u, a.repo, scratch, a.tier, seed, cfg) for u in units]
            kfuts = []
            if kunits:
                import kani_unit
                kfuts = [ex.submit(kani_unit.analyse, k, a.repo, scratch, a.tier, seed, cfg, prop) for k in kunits]
            results = [f.result() for f in futs] + [f.result() for f in kfuts]
        extra_results = []
        if a.tier == "thorough" and pcfg.get("thorough_extra", True):
            import thorough
            extra_results = thorough.run(prop, pcfg, a.repo, scratch, seed, cfg)
        # ---- classify
        known = [e for e in json.load(open(os.path.join(ROOT, "known_findings.json")))["findings"] if e["property"] == prop]
        violations, masked, others, undecided = [], [], [], []
        for r in results:
            for f in r["failures"]:
                # link obligations: clauses of a unit on the GUARANTEE side of an assume/guarantee link that this property's own
                # units assume (config: properties.<P>.also_tags.<unit> = tags of the clauses the link mirrors) count for P too
                ptags = set([prop]) | set((pcfg.get("also_tags") or {}).get(f.get("unit") or r["unit"], []))
                if ptags & set(f.get("tags") or []) or not f.get("tags"):
                    hit = None
                    for e in known:
                        if e.get("status") == "known" and match_known(f, e): hit = e; break
                    if hit: masked.append((f, hit))
                    else: violations.append(f)
                else:
                    others.append(f)
            for u in r["undecided"]:
                undecided.append("%s: %s" % (r["unit"], u))
        # Proof hints vs. obligations.  The contract of a function (requires / ensures / loop invariants / callee preconditions at
        # real call sites / overflow checks on real code) is the obligation; the asserts and lemma calls spliced at text anchors are
        # proof engineering.  When a HINT inside a function fails, the hints no longer fit the changed text of that function (a moved
        # or rewritten statement: the fact is asserted at the wrong program point), and a failing contract clause of the same function
        # may then be an artefact of the missing hint.  Such a function is UNDECIDED (tool limit), not a violation; the boundary-input
        # enumeration below decides.  A function whose hints all verify and whose contract clause fails stays a violation.
        hint_fns = set((f.get("unit"), f.get("function")) for r in results for f in r["failures"] if f.get("in_hint"))
        if hint_fns:
            moved = [f for f in violations if (f.get("unit"), f.get("function")) in hint_fns]
            if moved:
                violations = [f for f in violations if (f.get("unit"), f.get("function")) not in hint_fns]
                for u, fn in sorted(set((f.get("unit"), f.get("function")) for f in moved)):
                    cl = [("%s: %s" % (f.get("message"), (f.get("clause") or "")[:120])) for f in moved if f.get("unit") == u and f.get("function") == fn]
                    undecided.append("%s: fn %s: a spliced proof hint fails or a failure is sited on a line of code that is not in the baseline text of the function (a new obligation, not one that used to be discharged), so its %d failing obligation(s) are not attributable (tool limit): %s" % (u, fn, len(cl), " | ".join(cl[:3])))
        for er in extra_results:
            for f in er.get("failures", []):
                hit = None
                for e in known:
                    if e.get("status") == "known" and match_known(f, e): hit = e; break
                if hit: masked.append((f, hit))
                else: violations.append(f)
            undecided += er.get("undecided", [])
        # known findings that are PROVED to be present (a defect lemma over the contracts of the real code verifies)
        defect_notes = []
        for dl in pcfg.get("defect_lemmas", []):
            ent = [e for e in known if e["id"] == dl["finding"] and e.get("status") == "known"]
            proved = False
            for r in results:
                if r["unit"] != dl["unit"]: continue
                for fb in r.get("function_breakdown") or []:
                    if fb["function"].split("::")[-1] == dl["function"] and fb.get("success") and fb.get("mode") == "proof": proved = True
            if ent and proved: masked.append(({"unit": dl["unit"], "function": dl["function"], "clause": "defect lemma verified"}, ent[0]))
            elif ent: defect_notes.append("defect lemma %s did not verify: finding %s may no longer be present" % (dl["function"], dl["finding"]))
        # Counting rule.  An obligation is one function body / lemma / Kani check.  For property P a function whose ONLY failing
        # clauses are tagged for other properties counts as discharged (every clause that serves P verified; Verus reports each
        # failing clause separately); those clauses are listed under failed_obligations_outside_this_property.  A function that
        # fails ONLY because of a listed known finding of P is reported under masked_by_known_findings and counted neither as an
        # obligation nor as discharged (it is not proved, and it is not a new violation).
        obligations = 0; discharged = 0
        for r in results:
            ver, err = r.get("verified", 0), r.get("errors", 0)
            if r["engine"] != "verus":
                obligations += ver + err; discharged += ver; continue
            v_fns = set(f.get("function") for f in violations if f.get("unit") == r["unit"])
            m_fns = set(f.get("function") for f, e in masked if f.get("unit") == r["unit"] and f.get("clause") != "defect lemma verified") - v_fns
            o_fns = set(f.get("function") for f in others if f.get("unit") == r["unit"]) - v_fns - m_fns
            unmapped = max(0, err - len(v_fns) - len(m_fns) - len(o_fns))
            obligations += ver + len(v_fns) + len(o_fns) + unmapped
            discharged += ver + len(o_fns)
        wall = time.time() - t0
        # ---- evidence
        trusted = []
        for r in results:
            for l in r.get("trusted_scan", []): trusted.append("%s: %s" % (r["unit"], l))
            for it in r.get("items", []):
                if it.get("trusted"): trusted.append("%s: real fn %s :: %s kept as signature + assumed contract (%s)" % (r["unit"], it["file"], it["path"], it["trusted"]))
        functions = []
        for r in results:
            for it in r.get("items", []):
                if it["kind"] == "fn":
                    functions.append({"unit": r["unit"], "file": it["file"], "path": it["path"], "lines": it["orig_lines"], "sha256": it["sha256"][:16],
                                      "rewrites": [w["id"] for w in it["rewrites"]], "under_contract": it["has_contract"], "trusted": bool(it.get("trusted")),
                                      "backend": r["engine"]})
            for h in r.get("kani_functions", []): functions.append(h)
        samples = []
        for r in results:
            for fb in (r.get("function_breakdown") or [])[:400]:
                if fb.get("mode") in ("exec", "proof") and len(samples) < 12 and fb.get("time_us", 0) > 2000:
                    samples.append({"unit": r["unit"], "obligation": fb["function"], "mode": fb["mode"], "smt_us": fb["time_us"], "rlimit": fb["rlimit"], "discharged": fb["success"]})
            for h in r.get("kani_samples", []): samples.append(h)
        if not samples:
            for r in results:
                for fb in (r.get("function_breakdown") or [])[:5]:
                    samples.append({"unit": r["unit"], "obligation": fb["function"], "discharged": fb["success"]})
        ev = {
            "property_id": prop, "tier": a.tier, "seed": seed, "level": "proof",
            "coverage": {
                "obligations": obligations, "discharged": discharged,
                "checker_cmd": " ; ".join(r.get("checker_cmd", "") for r in results),
                "trusted_base": sorted(set(trusted)) + cfg.get("assumptions", []),
                "samples": samples,
                "units": [{"unit": r["unit"], "engine": r["engine"], "verified": r.get("verified"), "errors": r.get("errors"),
                           "smt_ms": r.get("smt_ms"), "wall_s": r.get("wall_s"), "vacuity": r.get("vacuity"),
                           "generated_sha256": r.get("gen_sha256"), "status": r["status"]} for r in results],
                "functions_under_contract": functions,
                "bounded": [b for r in results for b in r.get("bounded", [])] + [b for er in extra_results for b in er.get("bounded", [])],
                "masked_by_known_findings": [dict({"finding": e["id"], "function": f.get("function"), "clause": f.get("clause")},
                                                  **{k: f[k] for k in ("harness", "witness") if f.get(k)}) for f, e in masked],
                "failed_obligations_outside_this_property": [{"function": f.get("function"), "tags": f.get("tags"), "message": f.get("message")} for f in others],
                "undecided": undecided, "notes": defect_notes + ["%s: %s" % (r["unit"], n) for r in results for n in (r.get("notes") or [])],
                "not_decided_parts": pcfg.get("not_decided", []),
                "exhaustive": False,
            },
            "assumptions": cfg.get("assumptions", []) + pcfg.get("assumptions", []),
            "wall_s": round(wall, 2),
            "violations": len(violations),
        }
        # evidence under /verif/evidence only for runs against /repo itself (developer runs against a scratch worktree
        # with --repo must never overwrite the committed evidence)
        if os.path.realpath(a.repo) == os.path.realpath("/repo"):
            evdir = os.path.join(ROOT, "evidence")
        else:
            evdir = os.path.join(tempfile.gettempdir(), "verif-evidence-scratch")
        os.makedirs(evdir, exist_ok=True)
        json.dump(ev, open(os.path.join(evdir, prop + ".json"), "w"), indent=1)
        # ---- verdict
        for f, e in masked:
            pass
        printed = set()
        for f, e in masked:
            if e["id"] not in printed:
                print("KNOWN-FINDING: property=%s %s [%s]" % (prop, e["what"], e["id"])); printed.add(e["id"])
        if violations:
            import replay
            os.makedirs(os.path.join(ROOT, "replay", "out"), exist_ok=True)
            rp = os.path.join(ROOT, "replay", "out", "%s-%d.json" % (prop, int(time.time())))
            ev["coverage"]["replay_file"] = rp
            # a back end may attach a witness it has already replayed on the real crate (Kani counterexample): honour it
            witness = next((f["witness"] for f in violations if (f.get("witness") or {}).get("found")), None)
            try:
                if witness is None: witness = replay.find_witness(prop, violations, a.repo, scratch)
            except Exception as e:
                witness = {"found": False, "error": repr(e)}
            json.dump({"property": prop, "failed_obligations": violations, "witness": witness,
                       "verifier_output": [r.get("raw_stderr") for r in results if r.get("raw_stderr")]}, open(rp, "w"), indent=1)
            for f in violations[:10]:
                print("FAILED-OBLIGATION unit=%s fn=%s msg=%r clause=%r at %s" % (f.get("unit"), f.get("function"), f.get("message"), (f.get("clause") or "")[:160], f.get("repo_location")))
            if witness and witness.get("found") and witness.get("inputs") is not None:
                print("WITNESS %s inputs=%s observed=%s expected=%s" % (witness.get("harness", ""), json.dumps(witness["inputs"]), witness.get("observed"), witness.get("expected")))
            suffix = "" if (witness and witness.get("found")) else " no-failing-input-found"
            print("VIOLATION property=%s replay=%s%s" % (prop, rp, suffix))
            sys.exit(1)
        if undecided:
            for u in undecided[:10]: print("UNDECIDED %s" % u)
            # The deductive check could not decide (tool limit on the changed text: lost anchor, a helper the unit does not
            # extract, an unsupported construct, resource limit).  That alone is never an alarm.  But obligations that were
            # discharged on the unchanged tree are no longer established, so the boundary-input enumeration is run on the REAL
            # crate; a concrete failing input replayed there IS a violation (reported as such, with the reason the proof was
            # undecided); without one the answer stays UNDECIDED (exit 2).
            import replay
            try:
                witness = replay.find_witness(prop, [], a.repo, scratch)
            except Exception as e:
                witness = {"found": False, "error": repr(e)}
            if witness and witness.get("found"):
                os.makedirs(os.path.join(ROOT, "replay", "out"), exist_ok=True)
                rp = os.path.join(ROOT, "replay", "out", "%s-%d.json" % (prop, int(time.time())))
                json.dump({"property": prop, "failed_obligations": [{"unit": u.split(":")[0], "message": "obligations of this unit could not be re-established on the changed tree", "clause": u} for u in undecided],
                           "deductive_verdict": "undecided", "witness": witness}, open(rp, "w"), indent=1)
                ev["violations"] = 1; ev["coverage"]["replay_file"] = rp
                ev["coverage"]["notes"] = ev["coverage"].get("notes", []) + ["deductive check undecided; violation reported on the strength of a concrete failing input replayed on the real crate"]
                json.dump(ev, open(os.path.join(evdir, prop + ".json"), "w"), indent=1)
                print("VIOLATION property=%s replay=%s" % (prop, rp))
                sys.exit(1)
            try:
                import update_baseline
                base = json.load(open(os.path.join(ROOT, "vc", "baseline_tree.json")))["files"]
                cur = update_baseline.tree_hashes(a.repo)
                changed = sorted(k for k in set(base) | set(cur) if base.get(k) != cur.get(k))
                dv = dependency_violation(prop, pcfg, cfg, a.repo, changed) if changed else None
            except Exception as e:
                dv = None
            if dv and dv.get("found"): report_dependency_violation(prop, dv, ev, evdir)
            sys.exit(2)
        # Changed-tree tripwire.  Every obligation is discharged; if the library sources differ from the tree on which the
        # contracts were developed (vc/baseline_tree.json), the property's boundary-input enumeration is ALSO run on the real
        # crate (bounded, never counted as proved): contracts can be weaker than the property in places (trusted functions,
        # numeric fidelity through f64 casts, cumulative allocation, code outside every extracted function), and a concrete
        # failing input replayed on the real code is a violation whatever the proofs say.  On the unchanged tree this never runs.
        tripwire = None
        try:
            import update_baseline, replay
            base = json.load(open(os.path.join(ROOT, "vc", "baseline_tree.json")))["files"]
            cur = update_baseline.tree_hashes(a.repo)
            changed = sorted(k for k in set(base) | set(cur) if base.get(k) != cur.get(k))
            if changed and replay.FINDERS.get(prop) and not os.environ.get("VERIF_NO_TRIPWIRE"):
                w = replay.find_witness(prop, [], a.repo, scratch)
                tripwire = {"changed_files": changed[:20], "witness_found": bool(w and w.get("found")), "tried": (w or {}).get("tried")}
                if w and w.get("found"):
                    os.makedirs(os.path.join(ROOT, "replay", "out"), exist_ok=True)
                    rp = os.path.join(ROOT, "replay", "out", "%s-%d.json" % (prop, int(time.time())))
                    json.dump({"property": prop, "failed_obligations": [], "deductive_verdict": "all obligations discharged",
                               "note": "the contracts are weaker than the property here: a bounded differential run on the changed tree found a concrete failing input",
                               "changed_files": changed[:50], "witness": w}, open(rp, "w"), indent=1)
                    ev["violations"] = 1; ev["coverage"]["replay_file"] = rp; ev["coverage"]["tripwire"] = tripwire
                    json.dump(ev, open(os.path.join(evdir, prop + ".json"), "w"), indent=1)
                    print("VIOLATION property=%s replay=%s" % (prop, rp))
                    sys.exit(1)
            if changed:
                dv = dependency_violation(prop, pcfg, cfg, a.repo, changed)
                if dv is not None:
                    tripwire = dict(tripwire or {"changed_files": changed[:20]}, dependencies=dv.get("tried"))
                if dv and dv.get("found"):
                    ev["coverage"]["tripwire"] = tripwire
                    report_dependency_violation(prop, dv, ev, evdir)
        except SystemExit:
            raise
        except Exception as e:
            tripwire = {"error": repr(e)}
        # Assumption A3 scan (changed trees only).  The units replace derives by their own structural derives, declare the
        # thiserror-generated From conversions as plain wrappers and know nothing of Drop / Deref.  A NEW hand-written impl of such a
        # trait in a crate this property's units draw code from is code the contracts do not see: "all obligations discharged" then
        # says nothing about it, and with no failing input from the bounded run the honest answer is UNDECIDED, not OK.
        a3 = []
        try:
            import update_baseline
            if tripwire is not None and tripwire.get("changed_files"):
                allowed = set(json.load(open(os.path.join(ROOT, "vc", "baseline_impls.json")))["impls"])
                crates = set()
                for u in pcfg.get("units", []) + pcfg.get("kani", []):
                    for f in unit_source_files(u): crates.add(f.split("/")[0])
                for e in update_baseline.manual_impls(a.repo):
                    if "%s: %s" % (e["file"], e["impl"]) not in allowed and e["file"].split("/")[0] in crates:
                        a3.append("%s:%d impl %s" % (e["file"], e["line"], e["impl"]))
        except Exception as e:
            a3 = []
        # Code the contracts do not see (changed trees only).  Changed CODE lines outside every item any unit extracts (and outside
        # test modules) in a crate this property's units draw code from: a helper nobody put under contract, a constructor, an error
        # conversion, a Display impl.  The deductive verdict does not cover them; with no failing input from the bounded run the answer
        # is UNDECIDED, not OK (exit 2 is not an alarm).
        unc = []
        try:
            if tripwire is not None and tripwire.get("changed_files"):
                bt = json.load(open(os.path.join(ROOT, "vc", "baseline_tree.json")))
                crates = set()
                for u in pcfg.get("units", []) + pcfg.get("kani", []):
                    for f in unit_source_files(u): crates.add(f.split("/")[0])
                if bt.get("commit"):
                    unc = [l for l in update_baseline.uncovered_changes(a.repo, [f for f in changed if f.split("/")[0] in crates], bt["commit"])]
        except Exception as e:
            unc = []
        if tripwire is not None:
            if unc: tripwire["changed_code_outside_every_contract"] = unc[:40]
            if a3: tripwire["assumption_A3_new_manual_impls"] = a3
            ev["coverage"]["tripwire"] = tripwire
            json.dump(ev, open(os.path.join(evdir, prop + ".json"), "w"), indent=1)
        if a3:
            print("UNDECIDED assumption A3 (derived / generated trait impls are structural, conversions only wrap, no Drop) is not known to hold on this tree: new hand-written %s; every obligation is discharged but the contracts do not see that code, and the bounded run found no failing input" % "; ".join(a3[:4]))
            sys.exit(2)
        if unc:
            print("UNDECIDED every obligation is discharged and the bounded run found no failing input, but %d changed line(s) of code lie outside every function under contract (the verdict does not cover them): %s" % (len(unc), " | ".join(unc[:4])))
            sys.exit(2)
        print("OK property=%s obligations=%d discharged=%d units=%s wall=%.1fs" % (prop, obligations, discharged, ",".join(r["unit"] for r in results), wall))
        sys.exit(0)
    finally:
        if not a.keep: shutil.rmtree(scratch, ignore_errors=True)
        else: print("scratch kept:", scratch)

if __name__ == "__main__":
    main()
