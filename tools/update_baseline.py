#!/usr/bin/env python3
"""records the content hashes of /repo's library sources (the tree on which every obligation is discharged and every
bounded cross-check passes) in vc/baseline_tree.json; run after every commit to /repo"""
import hashlib, json, os, sys
ROOT = os.path.dirname(os.path.dirname(os.path.abspath(__file__)))
def tree_hashes(repo):
    out = {}
    for sub in ("rtmp/src", "amf0/src"):
        for d, _, fs in os.walk(os.path.join(repo, sub)):
            for f in sorted(fs):
                if f.endswith(".rs"):
                    p = os.path.join(d, f)
                    out[os.path.relpath(p, repo)] = hashlib.sha256(open(p, "rb").read()).hexdigest()
    return out
if __name__ == "__main__":
    repo = sys.argv[1] if len(sys.argv) > 1 else "/repo"
    json.dump({"files": tree_hashes(repo)}, open(os.path.join(ROOT, "vc", "baseline_tree.json"), "w"), indent=1, sort_keys=True)
    print("baseline recorded:", len(tree_hashes(repo)), "files")
