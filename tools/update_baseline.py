#!/usr/bin/env python3
"""records the content hashes of /repo's library sources (the tree on which every obligation is discharged and every
bounded cross-check passes) in vc/baseline_tree.json; run after every commit to /repo"""
import hashlib, json, os, sys
ROOT = os.path.dirname(os.path.dirname(os.path.abspath(__file__)))
def tree_hashes(repo):
    out = {}
    for sub in ("rtmp/src", "amf0/src"):
        for d, _, fs in os.walk(os.path.join(repo, sub)):
            for f in sorted(fs):
                if f.endswith(".rs"):
                    p = os.path.join(d, f)
                    out[os.path.relpath(p, repo)] = hashlib.sha256(open(p, "rb").read()).hexdigest()
    return out
ASSUMED_TRAITS = r"(?:From\s*<[^{]+?>|Into\s*<[^{]+?>|PartialEq(?:\s*<[^{]+?>)?|Eq|Clone|Copy|Default|Hash|Drop|Deref|DerefMut|Borrow\s*<[^{]+?>|AsRef\s*<[^{]+?>|Display|Debug|Error)"
def manual_impls(repo):
    """hand-written impls of the traits the units take as derived / generated / side-effect free (assumption A3): `impl <Trait> for <Type>`
    in the library sources, comments and #[cfg(test)] modules aside.  The units replace derives by their own structural derives, declare
    the thiserror-generated From conversions as wrappers and know nothing of Drop: a NEW impl of this kind is code the contracts do not see."""
    import re
    out = []
    for sub in ("rtmp/src", "amf0/src"):
        for d, _, fs in os.walk(os.path.join(repo, sub)):
            for f in sorted(fs):
                if not f.endswith(".rs"): continue
                p = os.path.join(d, f); rel = os.path.relpath(p, repo)
                txt = open(p, errors="replace").read()
                cut = txt.find("#[cfg(test)]")
                if cut >= 0: txt = txt[:cut]
                for n, line in enumerate(txt.split("\n"), 1):
                    code = line.split("//")[0]
                    m = re.match(r"\s*(?:unsafe\s+)?impl\s*(?:<[^>]*>)?\s*(?:::)?(?:[a-z_]+::)*(" + ASSUMED_TRAITS + r")\s+for\s+([A-Za-z_][A-Za-z0-9_:]*)", code)
                    if m: out.append({"file": rel, "line": n, "impl": re.sub(r"\s+", " ", "%s for %s" % (m.group(1), m.group(2)))})
    return out
def uncovered_changes(repo, changed_files, commit):
    """changed CODE lines (current tree against the baseline commit) that lie outside every item any unit template extracts, outside
    #[cfg(test)] modules and outside comments: code the contracts do not see.  Returns ["file:line text", ...]; [] when the baseline
    text is not available (no git / commit unknown) - the caller then falls back to the coarse answer."""
    import re, glob, subprocess, difflib
    sys.path.insert(0, os.path.join(ROOT, "tools"))
    import extract
    wanted = {}
    for t in sorted(glob.glob(os.path.join(ROOT, "vc", "units", "*.rs.tmpl"))):
        for l in open(t):
            m = re.match(r"\s*//@extract\s+(\S+)\s*::\s*(.+)$", l.strip())
            if m: wanted.setdefault(m.group(1), set()).add(m.group(2).strip())
    out, cache = [], {}
    try:      # the baseline commit must be readable from this tree's repository; otherwise there is no baseline text to compare with
        if subprocess.run(["git", "-C", repo, "cat-file", "-e", "%s^{commit}" % commit], capture_output=True, timeout=30).returncode != 0: return []
    except Exception:
        return []
    for f in changed_files:
        full = os.path.join(repo, f)
        cur = open(full, errors="replace").read() if os.path.exists(full) else ""
        try:
            base = subprocess.run(["git", "-C", repo, "show", "%s:%s" % (commit, f)], capture_output=True, text=True, timeout=30)
            if base.returncode != 0: base_txt = ""      # a new file: everything in it is new
            else: base_txt = base.stdout
        except Exception:
            return []
        covered = set()
        for path in wanted.get(f, ()):
            try:
                src, item = extract.locate(repo, f, path, cache)
                a = src.count("\n", 0, item.start) + 1; b = src.count("\n", 0, item.end) + 1
                covered.update(range(a, b + 1))
            except Exception:
                pass
        cl = cur.split("\n"); bl = base_txt.split("\n")
        cut = next((i + 1 for i, l in enumerate(cl) if "#[cfg(test)]" in l), len(cl) + 1)
        sm = difflib.SequenceMatcher(None, bl, cl, autojunk=False)
        for tag, i1, i2, j1, j2 in sm.get_opcodes():
            if tag == "equal": continue
            lines = list(range(j1 + 1, j2 + 1)) or [min(j1 + 1, len(cl))]      # a pure deletion is sited at the line that follows it
            removed_code = any(b.split("//")[0].strip() for b in bl[i1:i2])
            for n in lines:
                if n >= cut or n in covered: continue
                txt = cl[n - 1].split("//")[0].strip() if 0 < n <= len(cl) else ""
                if tag == "delete":
                    if removed_code: out.append("%s:%d (code removed in front of this line)" % (f, n))
                elif txt and not (txt.startswith("#[") and not txt.startswith("#[cfg")) and not txt.startswith("use ") and not txt.startswith("extern crate"):
                    out.append("%s:%d %s" % (f, n, txt[:80]))
    return out
def baseline_fn_texts(repo):
    """verbatim text of every item the unit templates extract, on the baseline tree.  Used ONLY to adapt GHOST text (invariants,
    hints) to renamed locals (run_check.py adapt_ghost_renames): never verified, never compared with the code under test"""
    import re, glob
    sys.path.insert(0, os.path.join(ROOT, "tools"))
    import extract
    out, cache = {}, {}
    for t in sorted(glob.glob(os.path.join(ROOT, "vc", "units", "*.rs.tmpl"))):
        for l in open(t):
            m = re.match(r"\s*//@extract\s+(\S+)\s*::\s*(.+)$", l.strip())
            if not m: continue
            f, path = m.group(1), m.group(2).strip()
            try:
                src, item = extract.locate(repo, f, path, cache)
                out["%s :: %s" % (f, path)] = src[item.start:item.end]
            except Exception as e:
                print("baseline_fn_texts: %s :: %s not found (%s)" % (f, path, e))
    return out
if __name__ == "__main__":
    repo = sys.argv[1] if len(sys.argv) > 1 else "/repo"
    import subprocess
    try: commit = subprocess.run(["git", "-C", repo, "rev-parse", "HEAD"], capture_output=True, text=True).stdout.strip()
    except Exception: commit = ""
    json.dump({"files": tree_hashes(repo), "commit": commit}, open(os.path.join(ROOT, "vc", "baseline_tree.json"), "w"), indent=1, sort_keys=True)
    print("baseline recorded:", len(tree_hashes(repo)), "files")
    json.dump({"impls": sorted(set("%s: %s" % (e["file"], e["impl"]) for e in manual_impls(repo)))}, open(os.path.join(ROOT, "vc", "baseline_impls.json"), "w"), indent=1)
    fns = baseline_fn_texts(repo)
    json.dump(fns, open(os.path.join(ROOT, "vc", "baseline_fns.json"), "w"), indent=0, sort_keys=True)
    print("baseline item texts recorded:", len(fns))
