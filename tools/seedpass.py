#!/usr/bin/env python3
"""Final pass: re-confirm and re-run EVERY stored seeded change (seeded/<id>/{patch.diff,demo.rs,meta.json}) against the
current checks, N at a time.  usage: seedpass.py [--jobs 3] [--only C01-A,C02-B] [--no-confirm]"""
import sys, os, json, glob, subprocess, argparse, concurrent.futures
ROOT = os.path.dirname(os.path.dirname(os.path.abspath(__file__)))
ap = argparse.ArgumentParser(); ap.add_argument("--jobs", type=int, default=3); ap.add_argument("--only", default=None); ap.add_argument("--no-confirm", action="store_true")
a = ap.parse_args()
todo = []
for d in sorted(glob.glob(os.path.join(ROOT, "seeded", "*", "meta.json"))):
    m = json.load(open(d)); sid = m["seed"]
    if a.only and sid not in a.only.split(","): continue
    checks = list(m.get("checks", {}).keys()) or [m["breaks_property"]]
    if m["breaks_property"] not in checks: checks.insert(0, m["breaks_property"])
    todo.append((sid, m["breaks_property"], checks))
def one(t):
    sid, prop, checks = t
    sd = os.path.join(ROOT, "seeded", sid)
    cmd = [sys.executable, os.path.join(ROOT, "tools", "seedtest.py"), sid, os.path.join(sd, "patch.diff"), os.path.join(sd, "demo.rs"), prop, "--checks", ",".join(checks)]
    if a.no_confirm: cmd.append("--no-confirm")
    p = subprocess.run(cmd, capture_output=True, text=True, timeout=7200)
    m = json.load(open(os.path.join(sd, "meta.json")))
    return sid, prop, {c: v["exit"] for c, v in m.get("checks", {}).items()}, m.get("demo_fails_with_change"), m.get("suite_with_change")
with concurrent.futures.ThreadPoolExecutor(max_workers=a.jobs) as ex:
    for sid, prop, res, demo, suite in ex.map(one, todo):
        own = res.get(prop)
        print("%-6s own-check %s -> %s   all %s   demo_fails=%s suite=%s" % (sid, prop, own, res, demo, suite), flush=True)
