#!/usr/bin/env python3
"""regenerates the generated regions of DESIGN.md (between <!-- X-BEGIN --> and <!-- X-END --> markers):
STATUS (tools/design_tables.py), SEEDS (tools/seed_table.py), BENIGN (tools/benign_table.py)"""
import os, re, subprocess, sys
ROOT = os.path.dirname(os.path.dirname(os.path.abspath(__file__)))
p = os.path.join(ROOT, "DESIGN.md"); s = open(p).read()
for name, tool in (("STATUS", "design_tables.py"), ("SEEDS", "seed_table.py"), ("BENIGN", "benign_table.py")):
    out = subprocess.run([sys.executable, os.path.join(ROOT, "tools", tool)], capture_output=True, text=True).stdout.rstrip("\n")
    a, b = "<!-- %s-BEGIN -->" % name, "<!-- %s-END -->" % name
    if a in s and b in s:
        i, j = s.index(a) + len(a), s.index(b)
        s = s[:i] + "\n" + out + "\n" + s[j:]
    else:
        print("marker %s missing" % name)
open(p, "w").write(s)
print("DESIGN.md regions regenerated")
