#!/usr/bin/env python3
"""prints the markdown table for DESIGN.md section 10 from seeded/*/meta.json"""
import json, glob, os
ROOT = os.path.dirname(os.path.dirname(os.path.abspath(__file__)))
print("| seed | breaks | change | needs, in order to manifest | checks run -> exit | caught by | how |")
print("|---|---|---|---|---|---|---|")
for d in sorted(glob.glob(os.path.join(ROOT, "seeded", "*", "meta.json"))):
    m = json.load(open(d))
    ch = m.get("checks", {})
    how = []
    for c, v in ch.items():
        ls = " ".join(v.get("lines", []))
        if v["exit"] == 1:
            if "LINK[" in ls: how.append("%s: through the assume/guarantee link (%s)" % (c, ", ".join(sorted(set(__import__("re").findall(r"LINK\[(C\d+)\]", ls))))))
            elif "FAILED-OBLIGATION" in ls and "no-failing-input-found" in ls: how.append("%s: failed obligation, no failing input found" % c)
            elif "FAILED-OBLIGATION" in ls: how.append("%s: failed obligation + replayed input" % c)
            else: how.append("%s: undecided deductively (tool limit on the changed text) or all discharged; concrete failing input replayed on the real crate" % c)
    print("| %s | %s | %s | %s | %s | %s | %s |" % (m["seed"], m["breaks_property"], m.get("what_was_changed", ""), m.get("needs_in_order_to_manifest", ""),
          ", ".join("%s -> %d" % (c, v["exit"]) for c, v in ch.items()), ", ".join(m.get("caught_by", [])) or "**missed**", "; ".join(how)))
