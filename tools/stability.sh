#!/bin/bash
# stability sweep: every claimed check, quick tier, several solver seeds (thorough tier = rlimit x4 + random seed + bounded cross-checks)
cd "$(dirname "$0")/.."
for seed in 1 2 3 4 5; do
  for p in $(python3 -c "import json;print(' '.join(json.load(open('vc/claimed.json'))['claimed']))"); do
    out=$(VERIF_SEED=$seed ./check $p --tier thorough 2>&1 | grep -v KNOWN-FINDING | tail -1)
    echo "seed=$seed $p rc=$? :: ${out:0:160}"
  done
done
