#!/usr/bin/env python3
"""prints the per-property status table (DESIGN.md 0.6) from the merged configuration and the last evidence files"""
import json, os, sys
ROOT = os.path.dirname(os.path.dirname(os.path.abspath(__file__)))
sys.path.insert(0, os.path.join(ROOT, "tools"))
import run_check
os.environ["VERIF_ALL_UNITS"] = "1"
cfg = run_check.load_config()
cl = json.load(open(os.path.join(ROOT, "vc", "claimed.json")))
props = [json.loads(l) for l in open(os.path.join(ROOT, "properties.jsonl"))]
known = json.load(open(os.path.join(ROOT, "known_findings.json")))["findings"]
print("| id | claimed | units (engine) | obligations discharged (last quick run) | known findings | parts NOT decided |")
print("|---|---|---|---|---|---|")
for p in props:
    pid = p["id"]; pc = cfg["properties"].get(pid, {})
    units = [u for u in pc.get("units", []) + pc.get("kani", [])]
    ev = None
    try: ev = json.load(open(os.path.join(ROOT, "evidence", pid + ".json")))
    except Exception: pass
    kn = sorted(set(e["id"] for e in known if e["property"] == pid and e.get("status") == "known"))
    nd = [x for x in pc.get("not_decided", []) if not x.startswith("units not yet marked ready")]
    print("| %s | %s | %s | %s | %s | %s |" % (pid, "yes" if pid in cl["claimed"] else "no (not applicable)" if not units else "no",
          ", ".join(units), ("%d / %d" % (ev["coverage"]["discharged"], ev["coverage"]["obligations"])) if ev else "-", ", ".join(kn) or "-",
          "; ".join(n[:220] + ("..." if len(n) > 220 else "") for n in nd) or "-"))
