"""witness finder / replay (filled in per property); never decides a verdict"""
import json, os, sys
def find_witness(prop, violations, repo, scratch):
    return {"found": False, "note": "no witness finder registered for this obligation"}
def replay_file(path, repo):
    d = json.load(open(path))
    print(json.dumps(d.get("failed_obligations"), indent=1)[:4000])
    w = d.get("witness") or {}
    if w.get("found"):
        print("WITNESS", json.dumps(w)[:2000]); return 1
    print("no concrete witness recorded; the failed obligations above are the violation"); return 1
