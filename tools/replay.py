"""Witness finder / replay.  Never decides a verdict: it only tries to turn a failed obligation into a concrete
failing input on the REAL crate (a small cargo project under /verif/replay linked against the repo under test)."""
import json, os, sys, subprocess, shutil, time, fcntl
ROOT = os.path.dirname(os.path.dirname(os.path.abspath(__file__)))

# property -> list of (binary, args) boundary-input enumerations
FINDERS = {
    "C01": [("chunk_witness", ["c01"])],
    "C06": [("chunk_witness", ["c06"])],
    "C07": [("chunk_witness", ["c07"])],
    "C08": [("chunk_witness", ["c08"])],
    "C15": [("chunk_witness", ["c15"]), ("session_witness", ["c15"])],
    "C19": [("chunk_witness", ["c19"]), ("amf0_witness", ["c12"]), ("session_witness", ["c19"])],
    "C03": [("chunk_witness", ["c03"]), ("chunk_witness", ["c06"]), ("chunk_witness", ["c01"]), ("amf0_witness", ["c14"]), ("msg_witness", []), ("hs_witness", ["c05"]), ("session_witness", ["c03"])],
    "C16": [("c16_interleave", []), ("chunk_witness", ["c16"])],
    "C04": [("amf0_witness", ["c04"])],
    "C12": [("amf0_witness", ["c12"]), ("amf0_witness", ["c04"])],
    "C14": [("amf0_witness", ["c14"])],
    "C13": [("msg_witness", [])],
    "C18": [("chunk_witness", ["c07"]), ("chunk_witness", ["c08"]), ("session_witness", ["c18"])],
    "C05": [("hs_witness", ["c05"])],
    "C11": [("hs_witness", ["c11"])],
    "C09": [("session_witness", ["c09"])],
    "C10": [("session_witness", ["c10"])],
    "C17": [("session_witness", ["c17"])],
    "C02": [("session_witness", ["c02"])],
    "C20": [("time_witness", [])],
}

def build(repo, scratch, bins):
    d = os.path.join(scratch, "replay")
    os.makedirs(d, exist_ok=True)
    if os.path.exists(os.path.join(d, "src")): shutil.rmtree(os.path.join(d, "src"))
    shutil.copytree(os.path.join(ROOT, "replay", "src"), os.path.join(d, "src"))
    t = open(os.path.join(ROOT, "replay", "Cargo.toml.in")).read().replace("@REPO@", os.path.abspath(repo))
    open(os.path.join(d, "Cargo.toml"), "w").write(t)
    lock = os.path.join(repo, "Cargo.lock")
    if os.path.exists(lock): shutil.copy(lock, os.path.join(d, "Cargo.lock"))
    env = dict(os.environ, CARGO_TARGET_DIR=os.path.join(ROOT, "replay", "target"), CARGO_NET_OFFLINE="true")
    cmd = ["cargo", "build", "--offline", "--release"] + sum((["--bin", b] for b in sorted(set(bins))), [])
    # The target directory is shared (incremental builds) by every check run, and runs against DIFFERENT trees may overlap
    # (seed tests in parallel): build under an exclusive lock and copy the binaries of THIS tree into the run's scratch
    # directory before the lock is released; exe() below only ever runs those copies.
    os.makedirs(os.path.join(ROOT, "replay", "target"), exist_ok=True)
    with open(os.path.join(ROOT, "replay", "target", ".verif-build.lock"), "w") as lk:
        fcntl.flock(lk, fcntl.LOCK_EX)
        p = subprocess.run(cmd, cwd=d, env=env, capture_output=True, text=True, timeout=1800)
        if p.returncode == 0:
            os.makedirs(os.path.join(d, "bin"), exist_ok=True)
            for b in set(bins): shutil.copy2(os.path.join(ROOT, "replay", "target", "release", b), os.path.join(d, "bin", b))
    return p.returncode == 0, p.stderr[-2000:]

def exe(scratch, b):
    return os.path.join(scratch, "replay", "bin", b)

def find_witness(prop, violations, repo, scratch):
    # a failure record may already carry a replayed counterexample (Kani concrete playback)
    for f in violations:
        w = f.get("witness")
        if isinstance(w, dict) and w.get("found"): return w
    finders = FINDERS.get(prop, [])
    # other units may register finders through a failure record: {"finder": [binary, args...]}
    for f in violations:
        if f.get("finder"): finders = finders + [(f["finder"][0], list(f["finder"][1:]))]
    if not finders: return {"found": False, "note": "no witness finder registered for this property"}
    ok, err = build(repo, scratch, [b for b, _ in finders])
    if not ok: return {"found": False, "note": "replay crate did not build against the tree under test", "cargo": err}
    seed = os.environ.get("VERIF_SEED", "0") or "0"
    tried = []
    try:
        known_wm = [e["witness_match"] for e in json.load(open(os.path.join(ROOT, "known_findings.json")))["findings"]
                    if e.get("property") == prop and e.get("status") == "known" and e.get("witness_match")]
    except Exception:
        known_wm = []
    for b, args in finders:
        try:
            p = subprocess.run([exe(scratch, b)] + args + [seed], capture_output=True, text=True, timeout=300)
            out = p.stdout.strip().split("\n")[-1] if p.stdout.strip() else ""
        except subprocess.TimeoutExpired:
            tried.append({"finder": b, "args": args, "result": "timeout"}); continue
        tried.append({"finder": b, "args": args, "exit": p.returncode, "last_line": out[:1500]})
        # a finder that is the replay of a LISTED known finding reproducing it is not a new witness (known_findings.json
        # `witness_match`): record it and go on with the other finders
        if p.returncode != 0 and any(wm.get("finder") == b and wm.get("line_contains", "") in p.stdout for wm in known_wm):
            tried[-1]["known_finding_reproduced"] = True
            continue
        if p.returncode != 0 and ("WITNESS" in p.stdout or "DEFECT-REPRODUCED" in p.stdout):
            return {"found": True, "finder": b, "args": args, "input": out[:3000], "how": "boundary-input enumeration on the real crate against an independent reference codec", "tried": tried}
        if p.returncode not in (0, 1):
            return {"found": True, "finder": b, "args": args, "input": "process died with status %d (abort / stack overflow / signal): %s" % (p.returncode, (p.stderr or "")[-500:]), "tried": tried}
    return {"found": False, "tried": tried}

def replay_file(path, repo):
    d = json.load(open(path))
    print("failed obligations:")
    for f in d.get("failed_obligations", []):
        print("  unit=%s fn=%s %s :: %s  (%s)" % (f.get("unit"), f.get("function"), f.get("message"), (f.get("clause") or "")[:200], f.get("repo_location")))
    w = d.get("witness") or {}
    if w.get("found"):
        print("recorded witness:", json.dumps(w)[:2000])
        if w.get("finder"):
            import tempfile
            sc = tempfile.mkdtemp(prefix="verif-replay-")
            try:
                ok, err = build(repo, sc, [w["finder"]])
                if ok:
                    p = subprocess.run([exe(sc, w["finder"])] + w.get("args", []) + [os.environ.get("VERIF_SEED", "0") or "0"], capture_output=True, text=True, timeout=300)
                    print("replayed on %s: exit %d: %s" % (repo, p.returncode, p.stdout.strip()[-1500:]))
                    return 1 if p.returncode != 0 else 0
            finally:
                shutil.rmtree(sc, ignore_errors=True)
        return 1
    print("no concrete failing input was found; the failed obligations above are the violation")
    return 1
