"""Minimal Rust lexer + item locator used by the mechanical extractor.

It does not parse Rust; it tokenizes well enough (strings, raw strings, chars vs. lifetimes,
line/block comments, nested delimiters) to
  * find an item (fn / struct / enum / const / type / impl block / method in an impl block) by name,
  * return the exact byte span of its text (attributes and doc comments excluded),
  * find the span of a fn signature and of its body,
  * enumerate the loop headers (`loop`, `while`, `for`) of a body in textual order.
Everything is position based so the extractor can copy text verbatim.
"""
import re

class Tok:
    __slots__ = ("kind", "text", "start", "end")
    def __init__(self, kind, text, start, end):
        self.kind, self.text, self.start, self.end = kind, text, start, end
    def __repr__(self):
        return "Tok(%s,%r,%d)" % (self.kind, self.text, self.start)

IDENT_RE = re.compile(r"[A-Za-z_][A-Za-z0-9_]*")
NUM_RE = re.compile(r"[0-9][A-Za-z0-9_]*(\.[0-9][A-Za-z0-9_]*)?")

def lex(src):
    """Return list of tokens. Comments are tokens of kind 'comment' (kept so spans stay exact)."""
    toks = []
    i, n = 0, len(src)
    while i < n:
        c = src[i]
        if c in " \t\r\n":
            i += 1
            continue
        if src.startswith("//", i):
            j = src.find("\n", i)
            j = n if j < 0 else j
            toks.append(Tok("comment", src[i:j], i, j)); i = j; continue
        if src.startswith("/*", i):
            depth, j = 1, i + 2
            while j < n and depth:
                if src.startswith("/*", j): depth += 1; j += 2
                elif src.startswith("*/", j): depth -= 1; j += 2
                else: j += 1
            toks.append(Tok("comment", src[i:j], i, j)); i = j; continue
        # raw strings / byte strings
        m = re.match(r"b?r(#*)\"", src[i:i+40])
        if m:
            hashes = m.group(1)
            endpat = '"' + hashes
            j = src.find(endpat, i + m.end())
            j = n if j < 0 else j + len(endpat)
            toks.append(Tok("str", src[i:j], i, j)); i = j; continue
        if c == '"' or (c == 'b' and i + 1 < n and src[i+1] == '"'):
            j = i + (2 if c == 'b' else 1)
            while j < n and src[j] != '"':
                j += 2 if src[j] == '\\' else 1
            j += 1
            toks.append(Tok("str", src[i:j], i, j)); i = j; continue
        if c == "'" or (c == 'b' and i + 1 < n and src[i+1] == "'"):
            k = i + (1 if c == 'b' else 0)
            # char literal or lifetime?
            if k + 1 < n and src[k+1] == '\\':
                j = k + 2
                while j < n and src[j] != "'": j += 1
                j += 1
                toks.append(Tok("char", src[i:j], i, j)); i = j; continue
            if k + 2 < n and src[k+2] == "'":
                j = k + 3
                toks.append(Tok("char", src[i:j], i, j)); i = j; continue
            m = IDENT_RE.match(src, k + 1)
            if m:
                toks.append(Tok("lifetime", src[i:m.end()], i, m.end())); i = m.end(); continue
            # non-ascii char literal
            j = src.find("'", k + 1)
            j = n if j < 0 else j + 1
            toks.append(Tok("char", src[i:j], i, j)); i = j; continue
        m = IDENT_RE.match(src, i)
        if m:
            toks.append(Tok("ident", m.group(0), i, m.end())); i = m.end(); continue
        m = NUM_RE.match(src, i)
        if m:
            toks.append(Tok("num", m.group(0), i, m.end())); i = m.end(); continue
        # multi-char punctuation that matters for us
        for p in ("->", "=>", "::", "..=", "..", "&&", "||", "==", "!=", "<=", ">=", "<<", ">>"):
            if src.startswith(p, i):
                toks.append(Tok("punct", p, i, i + len(p))); i += len(p); break
        else:
            toks.append(Tok("punct", c, i, i + 1)); i += 1
    return toks

OPEN = {"(": ")", "[": "]", "{": "}"}
CLOSE = {")", "]", "}"}

def code_toks(toks):
    return [t for t in toks if t.kind != "comment"]

def match_close(toks, idx):
    """toks[idx] is an opening delimiter; return index of its matching closer."""
    depth = 0
    for j in range(idx, len(toks)):
        t = toks[j]
        if t.kind == "punct":
            if t.text in OPEN: depth += 1
            elif t.text in CLOSE:
                depth -= 1
                if depth == 0: return j
    raise ValueError("unbalanced delimiters from token %r" % (toks[idx],))

ITEM_KW = {"fn", "struct", "enum", "const", "type", "impl", "trait", "mod", "static", "use", "macro_rules"}
QUALIFIERS = {"pub", "async", "unsafe", "extern", "default", "crate"}

class Item:
    def __init__(self, kind, name, start, end, toks, header):
        self.kind, self.name, self.start, self.end = kind, name, start, end
        self.toks = toks          # code tokens of the item (absolute positions)
        self.header = header      # normalized header text for impl blocks
    def __repr__(self):
        return "Item(%s %s %d..%d)" % (self.kind, self.name, self.start, self.end)

def norm(s):
    return re.sub(r"\s+", " ", s).strip()

def items_in(src, toks, lo, hi):
    """Enumerate items among code tokens toks[lo:hi] (a module or impl body)."""
    out = []
    i = lo
    while i < hi:
        t = toks[i]
        # skip attributes  #[...]  and  #![...]
        if t.kind == "punct" and t.text == "#":
            j = i + 1
            if toks[j].text == "!": j += 1
            if toks[j].text == "[":
                i = match_close(toks, j) + 1
                continue
        start_i = i
        # qualifiers
        while i < hi and toks[i].kind == "ident" and toks[i].text in QUALIFIERS:
            i += 1
            if i < hi and toks[i].text == "(":      # pub(crate)
                i = match_close(toks, i) + 1
            if i < hi and toks[i].kind == "str":     # extern "C"
                i += 1
        if i >= hi: break
        t = toks[i]
        if t.kind == "ident" and t.text in ITEM_KW:
            kw = t.text
            if kw == "const" and toks[i+1].kind == "ident" and toks[i+1].text == "fn":
                i += 1; kw = "fn"
            name = None
            if kw == "impl":
                # header runs to the opening brace
                j = i
                while not (toks[j].kind == "punct" and toks[j].text == "{"): j += 1
                header = norm(src[toks[i].start:toks[j].start])
                k = match_close(toks, j)
                out.append(Item("impl", header, toks[start_i].start, toks[k].end, toks[start_i:k+1], header))
                i = k + 1
                continue
            if kw == "macro_rules":
                j = i
                while toks[j].text not in OPEN: j += 1
                k = match_close(toks, j)
                i = k + 1
                if i < hi and toks[i].text == ";": i += 1
                continue
            name = toks[i+1].text
            # item ends at matching '}' of first top-level '{' or at ';' whichever first at depth 0
            j = i + 1
            depth = 0
            end_idx = None
            while j < hi:
                tt = toks[j]
                if tt.kind == "punct":
                    if tt.text in ("(", "["): depth += 1
                    elif tt.text in (")", "]"): depth -= 1
                    elif tt.text == "{" and depth == 0:
                        end_idx = match_close(toks, j)
                        # tuple/unit structs end in ';', brace structs do not
                        break
                    elif tt.text == ";" and depth == 0:
                        end_idx = j; break
                j += 1
            if end_idx is None: raise ValueError("unterminated item %s %s" % (kw, name))
            out.append(Item(kw, name, toks[start_i].start, toks[end_idx].end, toks[start_i:end_idx+1], None))
            i = end_idx + 1
            continue
        # something else (macro invocation at item level, stray token) -> skip one balanced unit
        if t.kind == "punct" and t.text in OPEN:
            i = match_close(toks, i) + 1
        else:
            i += 1
    return out

def top_items(src):
    toks = code_toks(lex(src))
    return toks, items_in(src, toks, 0, len(toks))

def impl_children(src, impl_item):
    toks = impl_item.toks
    # find opening brace
    j = 0
    while not (toks[j].kind == "punct" and toks[j].text == "{"): j += 1
    k = match_close(toks, j)
    return items_in(src, toks, j + 1, k)

def mod_children(src, mod_item):
    return impl_children(src, mod_item)

def fn_parts(item):
    """For a fn item: (sig_start, body_open_pos, body_close_pos, arrow_pos or None, ret_type_span or None).
    Positions are absolute offsets in the source. body_open_pos is the offset of '{'."""
    toks = item.toks
    depth = 0
    angle = 0
    arrow = None
    body_i = None
    where_i = None
    for j, t in enumerate(toks):
        if t.kind == "punct":
            if t.text in ("(", "["): depth += 1
            elif t.text in (")", "]"): depth -= 1
            elif t.text == "->" and depth == 0 and arrow is None: arrow = j
            elif t.text == "{" and depth == 0:
                body_i = j; break
        elif t.kind == "ident" and t.text == "where" and depth == 0 and where_i is None:
            where_i = j
    if body_i is None: raise ValueError("fn without body: %s" % item.name)
    close_i = match_close(toks, body_i)
    ret = None
    if arrow is not None:
        end_j = where_i if (where_i is not None and where_i > arrow) else body_i
        ret = (toks[arrow + 1].start, toks[end_j - 1].end)
    return {
        "body_open": toks[body_i].start,
        "body_close": toks[close_i].start,
        "arrow": toks[arrow].start if arrow is not None else None,
        "ret": ret,
        "body_tok_range": (body_i, close_i),
    }

def loop_headers(item):
    """Return list of (keyword, kw_pos, brace_pos, close_pos) for each loop in the fn body, textual order."""
    parts = fn_parts(item)
    toks = item.toks
    lo, hi = parts["body_tok_range"]
    out = []
    j = lo + 1
    while j < hi:
        t = toks[j]
        if t.kind == "ident" and t.text in ("loop", "while", "for"):
            # `for` in `for<'a>` (HRTB) does not occur in this code base inside bodies; guard anyway
            if t.text == "for" and toks[j+1].text == "<":
                j += 1; continue
            # header runs to first '{' at depth 0 (struct literals are not allowed in loop headers by Rust)
            depth = 0
            k = j + 1
            while True:
                tt = toks[k]
                if tt.kind == "punct":
                    if tt.text in ("(", "["): depth += 1
                    elif tt.text in (")", "]"): depth -= 1
                    elif tt.text == "{" and depth == 0: break
                k += 1
            c = match_close(toks, k)
            out.append((t.text, t.start, toks[k].start, toks[c].start))
        j += 1
    return out
