#!/usr/bin/env python3
"""False-alarm test: apply a BEHAVIOUR-PRESERVING change (written by a fresh sub-agent that saw only a property text and a
scratch worktree) to a scratch worktree of /repo and run every check whose cone draws functions from a changed file.
usage: benigntest.py <id> <patch.diff> [--checks C01,C07] [--jobs 3]
  exit 0 held / 2 undecided are both acceptable answers on such a change; exit 1 is a FALSE ALARM that has to be corrected.
Stores /verif/benign/<id>/{patch.diff, meta.json}; removes the worktree and its build output."""
import sys, os, subprocess, json, shutil, re, argparse, concurrent.futures
ROOT = os.path.dirname(os.path.dirname(os.path.abspath(__file__)))
sys.path.insert(0, os.path.join(ROOT, "tools"))
import run_check

def sh(cmd, cwd=None, timeout=3600, env=None):
    p = subprocess.run(cmd, shell=True, cwd=cwd, capture_output=True, text=True, timeout=timeout, env=env)
    return p.returncode, p.stdout + p.stderr

def main():
    ap = argparse.ArgumentParser()
    ap.add_argument("id"); ap.add_argument("patch"); ap.add_argument("--checks", default=None); ap.add_argument("--jobs", type=int, default=3)
    ap.add_argument("--no-suite", action="store_true")
    a = ap.parse_args()
    cfg = run_check.load_config()
    changed = sorted(set(re.findall(r"^\+\+\+ b/(\S+)", open(a.patch).read(), re.M)))
    if a.checks: checks = a.checks.split(",")
    else:
        checks = []
        for p, pc in sorted(cfg["properties"].items()):
            files = set()
            for u in pc.get("units", []) + pc.get("kani", []): files |= run_check.unit_source_files(u)
            if files & set(changed): checks.append(p)
    wt = "/tmp/benigntest-%s-%d" % (a.id, os.getpid())
    sh("git -C /repo worktree add -q --detach %s HEAD" % wt)
    meta = {"id": a.id, "changed_files": changed, "checks_run": checks, "repo_head": sh("git -C /repo rev-parse --short HEAD")[1].strip()}
    try:
        rc, out = sh("git apply %s" % os.path.abspath(a.patch), cwd=wt)
        if rc != 0: print("patch does not apply:", out); return 3
        if not a.no_suite:
            rc, out = sh("cargo test --workspace --no-fail-fast --offline 2>&1 | grep -E '^test result|^error'", cwd=wt)
            tot = sum(int(x) for x in re.findall(r"(\d+) passed", out)); fl = sum(int(x) for x in re.findall(r"(\d+) failed", out))
            meta["suite_with_change"] = {"passed": tot, "failed": fl, "errors": "error" in out}
            print("suite with the change: %d passed, %d failed" % (tot, fl))
        def one(c):
            rc, out = sh("python3 %s/tools/run_check.py %s --repo %s" % (ROOT, c, wt), timeout=3600)
            lines = [l for l in out.split("\n") if l.startswith(("VIOLATION", "FAILED-OBLIGATION", "UNDECIDED", "OK ", "KNOWN-FINDING", "LINK[", "WITNESS"))]
            return c, rc, [l[:400] for l in lines[:8]]
        res = {}
        with concurrent.futures.ThreadPoolExecutor(max_workers=a.jobs) as ex:
            for c, rc, lines in ex.map(one, checks):
                res[c] = {"exit": rc, "lines": lines}
                print("check %s -> exit %d" % (c, rc))
                if rc != 0: [print("   ", l[:300]) for l in lines[:5]]
        meta["checks"] = res
        meta["false_alarms"] = [c for c in checks if res[c]["exit"] == 1]
        meta["undecided"] = [c for c in checks if res[c]["exit"] == 2]
        od = os.path.join(ROOT, "benign", a.id); os.makedirs(od, exist_ok=True)
        shutil.copy(a.patch, os.path.join(od, "patch.diff"))
        json.dump(meta, open(os.path.join(od, "meta.json"), "w"), indent=1)
        return 0
    finally:
        sh("git -C /repo worktree remove --force %s" % wt)
        shutil.rmtree(wt, ignore_errors=True)

if __name__ == "__main__":
    sys.exit(main())
