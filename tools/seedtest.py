#!/usr/bin/env python3
"""Confirm a seeded change and run the checks against it.
usage: seedtest.py <seed-id> <patch.diff> <demo.rs> <property> [--checks C01,C07] [--keep] [--no-confirm]
  1. scratch worktree of /repo HEAD under /tmp; apply the patch
  2. confirm: builds, the existing suite passes, the demonstration FAILS with the patch and PASSES without it
  3. run ./check <p> --repo <worktree> for the listed checks (default: the property it breaks)
  4. store /verif/seeded/<seed-id>/{patch.diff, demo.rs, meta.json}; remove the worktree and its build output
"""
import sys, os, subprocess, json, shutil, re, time, argparse
ROOT = os.path.dirname(os.path.dirname(os.path.abspath(__file__)))

def sh(cmd, cwd=None, timeout=3600, env=None):
    p = subprocess.run(cmd, shell=True, cwd=cwd, capture_output=True, text=True, timeout=timeout, env=env)
    return p.returncode, p.stdout + p.stderr

def demo_place(demo_text, default_crate="rtmp"):
    m = re.search(r"(rtmp|amf0)/tests/([A-Za-z0-9_]+)\.rs", demo_text[:3000])
    if m: return m.group(1), m.group(2)
    return default_crate, "seed_demo"

def run_demo(wt, crate, name):
    pkg = "rml_rtmp" if crate == "rtmp" else "rml_amf0"
    rc, out = sh("cargo test --offline -p %s --test %s 2>&1 | tail -40" % (pkg, name), cwd=wt)
    failed = bool(re.search(r"test result: FAILED|error\[|error:|panicked|SIGABRT|SIGSEGV|overflowed its stack|signal", out)) or "test result: ok" not in out
    return (not failed), out[-1500:]

def main():
    ap = argparse.ArgumentParser()
    ap.add_argument("seed"); ap.add_argument("patch"); ap.add_argument("demo"); ap.add_argument("prop")
    ap.add_argument("--checks", default=None); ap.add_argument("--no-confirm", action="store_true"); ap.add_argument("--note", default="")
    a = ap.parse_args()
    checks = (a.checks or a.prop).split(",")
    wt = "/tmp/seedtest-%s-%d" % (a.seed, os.getpid())
    sh("git -C /repo worktree add -q --detach %s HEAD" % wt)
    notes = {}
    try: notes = json.load(open(os.path.join(ROOT, "seeded", "notes.json"))).get(a.seed, {})
    except Exception: pass
    meta = {"seed": a.seed, "breaks_property": a.prop, "what_was_changed": notes.get("what", ""), "needs_in_order_to_manifest": notes.get("needs", a.note), "repo_head": sh("git -C /repo rev-parse --short HEAD")[1].strip(), "note": a.note, "ran": []}
    try:
        demo_text = open(a.demo).read()
        crate, name = demo_place(demo_text)
        dst = os.path.join(wt, crate, "tests", name + ".rs")
        os.makedirs(os.path.dirname(dst), exist_ok=True)
        shutil.copy(a.demo, dst)
        if not a.no_confirm:
            ok0, out0 = run_demo(wt, crate, name)
            meta["ran"].append("demo on unchanged tree: %s" % ("PASS" if ok0 else "FAIL"))
            meta["demo_passes_without_change"] = ok0
        rc, out = sh("git apply %s" % os.path.abspath(a.patch), cwd=wt)
        if rc != 0:
            print("patch does not apply:", out); meta["applies"] = False; return 3
        if not a.no_confirm:
            rc, out = sh("cargo test --workspace --no-fail-fast --offline 2>&1 | grep -E '^test result|^error' ", cwd=wt)
            tot = sum(int(x) for x in re.findall(r"(\d+) passed", out)); fl = sum(int(x) for x in re.findall(r"(\d+) failed", out))
            # the demo itself is part of --workspace now: it is expected to fail; count unit tests only
            rc2, out2 = sh("cargo test --workspace --lib --no-fail-fast --offline 2>&1 | grep -E '^test result|^error'", cwd=wt)
            tot2 = sum(int(x) for x in re.findall(r"(\d+) passed", out2)); fl2 = sum(int(x) for x in re.findall(r"(\d+) failed", out2))
            meta["suite_with_change"] = {"lib_passed": tot2, "lib_failed": fl2}
            meta["ran"].append("cargo test --workspace --lib with the change: %d passed, %d failed" % (tot2, fl2))
            ok1, out1 = run_demo(wt, crate, name)
            meta["demo_fails_with_change"] = not ok1
            meta["ran"].append("demo with the change: %s" % ("PASS" if ok1 else "FAIL"))
            meta["demo_output_with_change"] = out1[-600:]
            print("confirm: suite lib passed=%d failed=%d ; demo without change %s ; with change %s" % (tot2, fl2, "PASS" if meta.get("demo_passes_without_change") else "FAIL", "PASS" if ok1 else "FAIL"))
        os.remove(dst)
        res = {}
        for c in checks:
            rc, out = sh("python3 %s/tools/run_check.py %s --repo %s" % (ROOT, c, wt), timeout=3600)
            lines = [l for l in out.split("\n") if l.startswith(("VIOLATION", "FAILED-OBLIGATION", "UNDECIDED", "OK ", "KNOWN-FINDING", "LINK[", "WITNESS"))]
            res[c] = {"exit": rc, "lines": [l[:400] for l in lines[:8]]}
            print("check %s -> exit %d" % (c, rc)); [print("   ", l[:300]) for l in lines[:6]]
            meta["ran"].append("./check %s against the changed tree: exit %d" % (c, rc))
        meta["checks"] = res
        meta["caught_by"] = [c for c in checks if res[c]["exit"] == 1]
        out_dir = os.path.join(ROOT, "seeded", a.seed)
        os.makedirs(out_dir, exist_ok=True)
        for src, name in ((a.patch, "patch.diff"), (a.demo, "demo.rs")):
            if os.path.realpath(src) != os.path.realpath(os.path.join(out_dir, name)): shutil.copy(src, os.path.join(out_dir, name))
        json.dump(meta, open(os.path.join(out_dir, "meta.json"), "w"), indent=1)
        return 0
    finally:
        sh("git -C /repo worktree remove --force %s" % wt)
        shutil.rmtree(wt, ignore_errors=True)

if __name__ == "__main__":
    sys.exit(main())
