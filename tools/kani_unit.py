#!/usr/bin/env python3
"""Kani back end of the driver (DESIGN 2.1 step 3, 2.5, 2.6): one *Kani unit* = /verif/kani/<unit>.toml.

analyse(unit, repo, scratch, tier, seed, cfg, prop) -> unit result dict for tools/run_check.py

  1. rsync the working tree of `repo` (without target/ and .git) to <scratch>/kani-<unit>/repo      -- /repo is never touched
  2. locate every [[function]] of the spec with the extractor's tokenizer (lost function => UNDECIDED, never an alarm),
     put `#[cfg_attr(kani, <contract clause>)]` in front of it (same line: real line numbers do not move) and append
     `#[cfg(any(kani, test))] mod <module>`: vchk! plumbing + the text of module_file (oracle + predicates p_<harness>)
     + GENERATED #[kani::proof]/#[kani::proof_for_contract] wrappers (+ stub_verified, + reachability cover) + the replay
     entry point.  The predicates are ordinary Rust, shared verbatim by Kani and by the witness replay.
  3. phase 1: ONE `cargo kani -j <n> --export-json` run of all harnesses (parallel), in parallel with the build of the
     replay test binary (`cargo test --no-run --offline` of the same scratch copy, no kani involved)
  4. phase 2 (only harnesses that failed; sequential -- Kani refuses playback with -j -- hence capped at units.<u>.max_playback,
     default 8, plus the uncounted known-finding harnesses): `cargo kani --concrete-playback=print` -> concrete counterexample
     per failed check.  A failed proof_for_contract harness is played back through its generated twin `<name>__cex` (plain
     #[kani::proof], same predicate, real function): playback of the contract-instrumented harness takes minutes in Kani 0.68.
  5. replay: the scratch copy's test binary evaluates p_<harness>(concrete values) on the REAL functions and prints
     observed/expected per check; a failure record gets `witness = {found, inputs, observed, expected, ...}`
  6. vacuity guards (every run): checks per harness > 0; the cover!(true) at the end of every harness SATISFIED; every
     `expect = "failure"` probe REFUTED by exactly its deliberately false claim; every vchk! of a predicate present as a Kani check
  7. scratch copy and both target dirs removed

A failed check of an `expect = "success"` harness is a verification failure (driver: VIOLATION unless known_findings.json
masks that harness).  Everything else that goes wrong (lost function, compile error, timeout, CBMC 'undetermined', probe not
refuted, prelude link out of sync) is `undecided`.
"""
import sys, os, re, json, time, subprocess, shutil, hashlib, concurrent.futures
try:
    import tomllib
except ImportError:                                   # python < 3.11
    tomllib = None
HERE = os.path.dirname(os.path.abspath(__file__))
ROOT = os.path.dirname(HERE)
sys.path.insert(0, HERE)
import extract

ONLY = None
INT_TYPES = {"u8": 1, "u16": 2, "u32": 4, "u64": 8, "usize": 8}
NCPU = os.cpu_count() or 4

class ToolError(Exception):
    pass

# ------------------------------------------------------------------------------------------------ spec
def load_spec(unit):
    for ext in ("toml", "json"):
        p = os.path.join(ROOT, "kani", "%s.%s" % (unit, ext))
        if os.path.exists(p):
            if ext == "toml":
                if tomllib is None: raise ToolError("python3 >= 3.11 (tomllib) needed to read %s" % p)
                spec = tomllib.load(open(p, "rb"))
            else:
                spec = json.load(open(p))
            spec["_path"] = p
            break
    else:
        raise ToolError("no Kani unit spec kani/%s.toml|json" % unit)
    for k in ("package", "file", "module", "module_file"):
        if k not in spec: raise ToolError("kani/%s: key %r missing" % (unit, k))
    spec["_module_text"] = open(os.path.join(ROOT, "kani", spec["module_file"])).read()
    names = set()
    for h in spec.get("harness", []):
        for k in ("name", "kind", "inputs", "expect"):
            if k not in h: raise ToolError("harness %r: key %r missing" % (h.get("name"), k))
        if h["name"] in names: raise ToolError("harness %s listed twice" % h["name"])
        names.add(h["name"])
        if h["kind"] not in ("proof", "contract"): raise ToolError("harness %s: kind %r" % (h["name"], h["kind"]))
        if h["kind"] == "contract" and not h.get("target"): raise ToolError("harness %s: contract harness without target" % h["name"])
        if h["expect"] not in ("success", "failure"): raise ToolError("harness %s: expect %r" % (h["name"], h["expect"]))
        h["_inputs"] = []
        for i in h["inputs"]:
            m = re.fullmatch(r"\s*([a-z_][a-z0-9_]*)\s*:\s*([a-z0-9]+)\s*", i)
            if not m or (m.group(2) not in INT_TYPES and m.group(2) != "bool"):
                raise ToolError("harness %s: input %r not supported (unsigned integers and bool only)" % (h["name"], i))
            h["_inputs"].append((m.group(1), m.group(2)))
        if not re.search(r"\bfn\s+p_%s\s*\(" % re.escape(h["name"]), spec["_module_text"]):
            raise ToolError("harness %s: predicate fn p_%s not found in kani/%s" % (h["name"], h["name"], spec["module_file"]))
    return spec

# ------------------------------------------------------------------------------------------------ injection
PLUMBING = r'''
    // ---- generated by tools/kani_unit.py: vchk!(label, observed, expected)
    #[cfg(kani)]
    macro_rules! vchk { ($label:expr, $obs:expr, $exp:expr) => {{ let o = $obs; let e = $exp; assert!(o == e, $label); }}; }
    #[cfg(not(kani))]
    thread_local! { pub static VLOG: std::cell::RefCell<Vec<(&'static str, String, String, bool)>> = std::cell::RefCell::new(Vec::new()); }
    #[cfg(not(kani))]
    macro_rules! vchk { ($label:expr, $obs:expr, $exp:expr) => {{
        let o = $obs; let e = $exp; let ok = o == e;
        VLOG.with(|l| l.borrow_mut().push(($label, format!("{:?}", o), format!("{:?}", e), ok)));
    }}; }
'''

def cast(ty, i):
    return "(vals[%d] != 0)" % i if ty == "bool" else "(vals[%d] as %s)" % (i, ty)

def gen_wrappers(spec):
    out = ["", "    // ---- generated by tools/kani_unit.py from %s: Kani wrappers" % os.path.basename(spec["_path"])]
    for h in spec["harness"]:
        out.append("    #[cfg(kani)]")
        if h["kind"] == "contract": out.append("    #[kani::proof_for_contract(%s)]" % h["target"])
        else: out.append("    #[kani::proof]")
        for s in h.get("stubs", []): out.append("    #[kani::stub_verified(%s)]" % s)
        out.append("    fn %s() {" % h["name"])
        for (n, t) in h["_inputs"]: out.append("        let %s: %s = kani::any();" % (n, t))
        out.append("        p_%s(%s);" % (h["name"], ", ".join(n for n, _ in h["_inputs"])))
        out.append("        kani::cover!(true, \"REACH %s: end of harness reachable\");" % h["name"])
        out.append("    }")
        if h["kind"] == "contract":
            # twin without the contract instrumentation: only used to EXTRACT a counterexample when the contract harness failed
            # (concrete playback of a proof_for_contract harness takes minutes in Kani 0.68); same predicate, real function
            out.append("    #[cfg(kani)]")
            out.append("    #[kani::proof]")
            out.append("    fn %s__cex() {" % h["name"])
            for (n, t) in h["_inputs"]: out.append("        let %s: %s = kani::any();" % (n, t))
            out.append("        p_%s(%s);" % (h["name"], ", ".join(n for n, _ in h["_inputs"])))
            out.append("    }")
    out.append("")
    out.append("    // ---- generated: witness replay entry (ordinary cargo test, no kani): VERIF_REPLAY_CASES=\"<harness>:v1,v2;...\"")
    out.append("    #[cfg(all(test, not(kani)))]")
    out.append("    #[test]")
    out.append("    fn verif_replay_entry() {")
    out.append("        let cases = std::env::var(\"VERIF_REPLAY_CASES\").unwrap_or_default();")
    out.append("        println!();")
    out.append("        for (idx, case) in cases.split(';').filter(|c| !c.is_empty()).enumerate() {")
    out.append("            let mut it = case.split(':');")
    out.append("            let h = it.next().unwrap().to_string();")
    out.append("            let vals: Vec<u64> = it.next().unwrap_or(\"\").split(',').filter(|s| !s.is_empty()).map(|s| s.parse().unwrap()).collect();")
    out.append("            VLOG.with(|l| l.borrow_mut().clear());")
    out.append("            let r = std::panic::catch_unwind(std::panic::AssertUnwindSafe(|| match h.as_str() {")
    for h in spec["harness"]:
        out.append("                \"%s\" => p_%s(%s)," % (h["name"], h["name"], ", ".join(cast(t, i) for i, (_, t) in enumerate(h["_inputs"]))))
    out.append("                _ => panic!(\"unknown harness\"),")
    out.append("            }));")
    out.append("            VLOG.with(|l| for (label, o, e, ok) in l.borrow().iter() {")
    out.append("                println!(\"VERIF-REPLAY\\t{}\\t{}\\t{}\\t{}\\t{}\\t{}\", idx, h, label, o, e, ok);")
    out.append("            });")
    out.append("            if let Err(p) = r {")
    out.append("                let msg = p.downcast_ref::<String>().cloned().or_else(|| p.downcast_ref::<&str>().map(|s| s.to_string())).unwrap_or_default();")
    out.append("                println!(\"VERIF-REPLAY-PANIC\\t{}\\t{}\\t{}\", idx, h, msg.replace('\\n', \" \"));")
    out.append("            }")
    out.append("            println!(\"VERIF-REPLAY-DONE\\t{}\\t{}\", idx, h);")
    out.append("        }")
    out.append("    }")
    return "\n".join(out)

def inject(spec, work_repo):
    """returns (meta, functions) ; writes the injected file into the scratch copy"""
    rel = spec["file"]
    full = os.path.join(work_repo, rel)
    if not os.path.exists(full): raise ToolError("LOST-ANCHOR file %s does not exist" % rel)
    src = open(full).read()
    if re.search(r"\bmod\s+%s\b" % re.escape(spec["module"]), src):
        raise ToolError("%s already contains a module named %s" % (rel, spec["module"]))
    cache = {}
    edits, functions = [], []
    for f in spec.get("function", []):
        try:
            _, item = extract.locate(work_repo, rel, f["path"], cache)
        except extract.ToolError as e:
            raise ToolError(str(e))
        if item.kind != "fn": raise ToolError("LOST-ANCHOR %s :: %s is not a fn" % (rel, f["path"]))
        text = src[item.start:item.end]
        clauses = f.get("contract", [])
        # the clauses name the parameters; `params` records the names they were written with.  If the function's parameters have
        # been renamed (same count), the clauses follow POSITIONALLY - callers pass by position, so this is the same contract.
        renamed = {}
        if clauses and f.get("params"):
            msig = re.search(r"\bfn\s+\w+\s*(?:<[^>]*>)?\s*\(([^)]*)\)", text, re.S)
            cur = []
            if msig:
                for part in msig.group(1).split(","):
                    mm = re.match(r"\s*(?:mut\s+)?([A-Za-z_]\w*)\s*:", part)
                    if mm: cur.append(mm.group(1))
            if len(cur) == len(f["params"]) and cur != f["params"]:
                renamed = dict((a, b) for a, b in zip(f["params"], cur) if a != b)
                def ren(c):
                    for a, b in renamed.items(): c = re.sub(r"\b%s\b" % re.escape(a), "\x00" + b, c)
                    return c.replace("\x00", "")
                clauses = [ren(c) for c in clauses]
        if clauses:
            edits.append((item.start, "".join("#[cfg_attr(kani, %s)] " % c for c in clauses)))
        functions.append({"file": rel, "path": f["path"], "lines": [extract.line_of(src, item.start), extract.line_of(src, item.end)],
                          "sha256": hashlib.sha256(text.encode()).hexdigest()[:16], "rewrites": ([{"id": "R16", "contract_follows_renamed_parameters": renamed}] if renamed else []), "under_contract": bool(clauses),
                          "contract": clauses, "trusted": False, "backend": "kani", "serves": f.get("serves", [])})
    out = src
    for pos, ins in sorted(edits, reverse=True):
        out = out[:pos] + ins + out[pos:]
    if out.count("\n") != src.count("\n"): raise ToolError("internal: attribute injection moved lines")
    if not out.endswith("\n"): out += "\n"
    orig_lines = out.count("\n")
    head = "\n// ===== appended by /verif/tools/kani_unit.py (scratch copy only) =====\n" \
           "#[cfg(any(kani, test))]\n#[allow(dead_code, unused_imports, unused_macros, unused_parens, non_snake_case)]\nmod %s {" % spec["module"]
    plumbing = PLUMBING
    pre = out + head + plumbing
    modtext = "\n".join(("    " + l if l.strip() else l) for l in spec["_module_text"].split("\n"))
    mod_first_line = pre.count("\n") + 1
    new = pre + modtext + "\n" + gen_wrappers(spec) + "\n}\n"
    open(full, "w").write(new)
    meta = {"orig_lines": orig_lines, "mod_first_line": mod_first_line, "mod_lines": spec["_module_text"].count("\n") + 1,
            "injected_sha256": hashlib.sha256(new.encode()).hexdigest(), "text": new}
    return meta, functions

def check_links(spec):
    bad = []
    for l in spec.get("link", []):
        p = os.path.join(ROOT, l["file"])
        if not os.path.exists(p): bad.append("assume/guarantee link: %s is missing" % l["file"]); continue
        norm = re.sub(r"\s+", " ", open(p).read())
        for t in l.get("must_contain", []):
            if re.sub(r"\s+", " ", t) not in norm:
                bad.append("assume/guarantee link out of sync: %s no longer contains %r (harness %s proves the old text)" % (l["file"], t[:70], l.get("guaranteed_by")))
    return bad

# ------------------------------------------------------------------------------------------------ running tools
def run(cmd, cwd, env, timeout):
    t0 = time.time()
    try:
        p = subprocess.run(cmd, cwd=cwd, env=env, capture_output=True, text=True, timeout=timeout)
        rc, out, err = p.returncode, p.stdout, p.stderr
    except subprocess.TimeoutExpired as e:
        out, err = e.stdout or "", e.stderr or ""
        if isinstance(out, bytes): out = out.decode(errors="replace")
        if isinstance(err, bytes): err = err.decode(errors="replace")
        rc, err = 124, err + "\nTIMEOUT after %ss" % timeout
    return {"rc": rc, "out": out, "err": err, "wall": time.time() - t0, "cmd": " ".join(cmd)}

def compile_errors(text):
    return [l.strip() for l in text.split("\n") if re.match(r"\s*error(\[E\d+\])?:", l)][:4]

def kani_cmd(spec, harnesses, extra):
    cmd = ["cargo", "kani", "-p", spec["package"]] + list(spec.get("kani_flags", [])) + ["-Z", "unstable-options", "--exact"]
    for h in harnesses: cmd += ["--harness", h]
    return cmd + extra

def parse_playback(out):
    """-> {harness_id: [(category, description, [int values])]}"""
    res = {}
    for m in re.finditer(r"Concrete playback unit test for `([^`]+)`:\s*\n```\n(.*?)\n```", out, re.S):
        hid, body = m.group(1), m.group(2)
        c = re.search(r"/// Check for `([^`]*)`: \"(.*)\"\s*$", body, re.M)
        cat, desc = (c.group(1), c.group(2)) if c else ("?", "")
        vals = []
        for v in re.finditer(r"^\s*vec!\[([0-9,\s]*)\],\s*$", body, re.M):
            bs = [int(x) for x in v.group(1).split(",") if x.strip()]
            vals.append(sum(b << (8 * i) for i, b in enumerate(bs)))
        res.setdefault(hid, []).append((cat, desc, vals))
    return res

# ------------------------------------------------------------------------------------------------ main entry
def analyse(unit, repo, scratch, tier, seed, cfg, prop):
    res = {"unit": unit, "engine": "kani", "status": "ok", "failures": [], "undecided": [], "notes": [],
           "verified": 0, "errors": 0, "trusted_scan": [], "items": [], "kani_functions": [], "kani_samples": [], "bounded": []}
    work = os.path.join(scratch, "kani-%s" % unit)
    t0 = time.time()
    try:
        _analyse(res, unit, repo, work, tier, seed, cfg, prop)
    except ToolError as e:
        res["undecided"].append(str(e))
    except Exception as e:                                      # a crash of the tool is never an alarm
        res["undecided"].append("kani_unit crashed: %r" % e)
    finally:
        if not os.environ.get("VERIF_KANI_KEEP"):
            shutil.rmtree(work, ignore_errors=True)             # scratch copy + target-kani + target-replay
    res["wall_s"] = round(time.time() - t0, 2)
    if res["undecided"] and not res["failures"]: res["status"] = "undecided"
    return res

def _analyse(res, unit, repo, work, tier, seed, cfg, prop):
    spec = load_spec(unit)
    ucfg = (cfg or {}).get("units", {}).get(unit, {})
    mod = spec["module"]
    if os.path.exists(work): shutil.rmtree(work)
    os.makedirs(work)
    wrepo = os.path.join(work, "repo")
    if not os.path.isdir(repo): raise ToolError("repo %s does not exist" % repo)
    r = run(["rsync", "-a", "--exclude", "target/", "--exclude", ".git", repo.rstrip("/") + "/", wrepo + "/"], None, None, 300)
    if r["rc"] != 0: raise ToolError("rsync of the working tree failed: %s" % r["err"][-300:])
    meta, functions = inject(spec, wrepo)
    for f in functions: f["unit"] = unit
    res["kani_functions"] = functions
    res["gen_sha256"] = meta["injected_sha256"]
    res["trusted_scan"] = list(spec.get("trusted_base", []))
    for b in check_links(spec): res["undecided"].append(b)
    modpath = re.sub(r"(/mod)?\.rs$", "", re.sub(r"^.*?src/", "", spec["file"])).replace("/", "::")   # harness ids:  time::verif_time::<name>
    modpath = "" if modpath in ("lib", "main") else modpath
    def hid(name): return "::".join(x for x in (modpath, mod, name) if x)
    harnesses = spec["harness"]
    if ONLY: harnesses = [h for h in harnesses if any(o in h["name"] for o in ONLY)]      # developer aid (CLI only)
    env = dict(os.environ, CARGO_NET_OFFLINE="true", CARGO_TERM_COLOR="never")
    env.pop("RUSTFLAGS", None)
    kenv = dict(env, CARGO_TARGET_DIR=os.path.join(work, "target-kani"))
    renv = dict(env, CARGO_TARGET_DIR=os.path.join(work, "target-replay"))
    hto = int(ucfg.get("harness_timeout_s", 300)) * (4 if tier == "thorough" else 1)
    jfile = os.path.join(work, "kani-main.json")
    main_cmd = kani_cmd(spec, [hid(h["name"]) for h in harnesses],
                        ["-j", str(min(NCPU, max(1, len(harnesses)))), "--output-format", "terse", "--harness-timeout", "%ds" % hto, "--export-json", jfile])
    test_filter = hid("verif_replay_entry")
    build_cmd = ["cargo", "test", "--offline", "-p", spec["package"], "--lib", "--no-run"]
    with concurrent.futures.ThreadPoolExecutor(max_workers=2) as ex:
        f1 = ex.submit(run, main_cmd, wrepo, kenv, hto * 2 + 600)
        f2 = ex.submit(run, build_cmd, wrepo, renv, 900)
        main, rbuild = f1.result(), f2.result()
    res["checker_cmd"] = "CARGO_NET_OFFLINE=true " + main["cmd"].replace(work, "<scratch>") + "   [on an rsync copy of the checked tree with kani/%s injected; failed harnesses re-run with -Z concrete-playback --concrete-playback=print and replayed with `cargo test --offline`]" % os.path.basename(spec["_path"])
    res["kani_wall_s"] = round(main["wall"], 2)
    res["replay_build_wall_s"] = round(rbuild["wall"], 2)
    if not os.path.exists(jfile):
        res["raw_stderr"] = (main["err"] + main["out"])[-4000:]
        raise ToolError("cargo kani produced no result (rc=%s; compile error or tool failure, not a verdict): %s" % (main["rc"], compile_errors(main["err"] + main["out"]) or (main["err"] + main["out"])[-300:]))
    js = json.load(open(jfile))
    results = {r_["harness_id"]: r_ for r_ in js.get("verification_results", {}).get("results", [])}
    cbmc = {c["harness_id"]: c for c in js.get("cbmc", [])}
    res["tool_versions"] = {k: js.get("tools", {}).get(k) for k in ("kani", "cbmc", "rustc")}
    # ---- thorough tier: second, independent SAT back end must agree harness by harness
    second = None
    if tier == "thorough":
        jf2 = os.path.join(work, "kani-second.json")
        solver = ucfg.get("second_solver", "minisat")
        c2 = kani_cmd(spec, [hid(h["name"]) for h in harnesses], ["-j", str(min(NCPU, len(harnesses))), "--output-format", "terse", "--harness-timeout", "%ds" % hto, "--solver", solver, "--export-json", jf2])
        r2 = run(c2, wrepo, kenv, hto * 2 + 600)
        if os.path.exists(jf2):
            second = {x["harness_id"]: x["status"] for x in json.load(open(jf2)).get("verification_results", {}).get("results", [])}
            res["checker_cmd"] += " ; the same with --solver %s" % solver
        else:
            res["undecided"].append("thorough: second solver run (%s) produced no result" % solver)
    # ---- per harness
    per = {}
    solver_s = 0.0
    vac = {"probes": 0, "rejected": 0, "vacuous": [], "reachability_covers": 0, "covers_satisfied": 0, "must_fail_probes": 0, "must_fail_refuted": 0}
    failed_ids = []
    for h in harnesses:
        name, id_ = h["name"], hid(h["name"])
        rr = results.get(id_)
        if rr is None:
            res["undecided"].append("harness %s did not run (not found / tool failure)" % id_); continue
        checks = rr.get("checks", [])
        props = [c for c in checks if c.get("category") != "cover"]
        covers = [c for c in checks if c.get("category") == "cover"]
        unwind_failed = [c for c in props if "unwind" in (c.get("category") or "") and c["status"] == "Failure"]
        fails = [c for c in props if c["status"] == "Failure" and c not in unwind_failed]
        unreach = [c for c in props if c["status"] == "Unreachable"]
        odd = [c for c in props if c["status"] not in ("Success", "Failure", "Unreachable")]
        st = cbmc.get(id_, {}).get("cbmc_stats", {})
        ssec = float(st.get("runtime_decision_procedure_s") or 0) + float(st.get("runtime_symex_s") or 0) + float(st.get("runtime_convert_ssa_s") or 0)
        solver_s += ssec
        counted = h["expect"] == "success" and h.get("counted", True)
        info = {"unit": unit, "obligation": id_, "backend": "kani", "kind": "proof_for_contract(%s)" % h["target"] if h["kind"] == "contract" else "proof",
                "stub_verified": h.get("stubs", []), "inputs": h["inputs"], "tags": h.get("tags", []), "role": h.get("role", ""),
                "complete": bool(h.get("complete")) and not unwind_failed,
                "domain": "all 2^%d input tuples (unconstrained kani::any(), no unwinding bound)" % sum(1 if t == "bool" else 8 * INT_TYPES[t] for _, t in h["_inputs"]), "expected": h["expect"], "status": rr.get("status"),
                "checks": len(props), "failed": len(fails), "unreachable": len(unreach), "cbmc_s": round(ssec, 3), "wall_ms": rr.get("duration_ms"),
                "counted_in_obligations": counted, "discharged": rr.get("status") == "Success"}
        if h.get("excluded_slice"): info["excluded_slice"] = h["excluded_slice"]
        mine = [c for c in props if c.get("function", "").endswith("::p_" + name) and c.get("category") == "assertion"]
        info["assertions"] = [{"label": c["description"].strip('"'), "status": c["status"]} for c in mine]
        per[name] = info
        # guards
        if not props:
            res["undecided"].append("vacuity guard: harness %s has no checks" % name)
        if odd or rr.get("status") not in ("Success", "Failure"):
            res["undecided"].append("harness %s: Kani status %s, %d checks neither SUCCESS, FAILURE nor UNREACHABLE (%s)" % (name, rr.get("status"), len(odd), sorted(set(c["status"] for c in odd))[:3]))
        if rr.get("status") == "Success" and [c for c in mine if c["status"] == "Unreachable"]:
            # a stated assertion that cannot be reached in a successful harness holds vacuously (dead code in std is fine, this is not)
            res["undecided"].append("vacuity guard: %d stated checks of p_%s are unreachable" % (len([c for c in mine if c["status"] == "Unreachable"]), name))
        n_vchk = count_vchk(spec["_module_text"], name)
        if n_vchk is not None and len(mine) < n_vchk:
            res["undecided"].append("vacuity guard: predicate p_%s states %d checks but only %d reached Kani" % (name, n_vchk, len(mine)))
        if second is not None and second.get(id_) != rr.get("status"):
            res["undecided"].append("thorough: solvers disagree on %s (%s vs %s)" % (name, rr.get("status"), second.get(id_)))
        if rr.get("status") == "Failure" and not fails and not unwind_failed:
            res["undecided"].append("harness %s: Kani reports FAILED without a failed check" % name)
        if unwind_failed:                                       # a loop was not fully unrolled: the result is bounded, not a proof
            res["bounded"].append({"unit": unit, "harness": id_, "bound": "unwinding assertion failed", "note": "declared complete=%s" % h.get("complete")})
            res["undecided"].append("harness %s: unwinding assertion failed (bounded result, not a proof)" % name)
        if rr.get("status") == "Success":
            # reachability: the cover!(true) at the end of the harness must be SATISFIED, else some assumption (a stub's
            # postcondition, an early return) is contradictory and the success is vacuous.  Not applicable to a FAILED harness:
            # a failed check is a real counterexample, and Kani stops the path at it (the cover behind it may be unreachable).
            vac["reachability_covers"] += 1
            if len(covers) >= 1 and all(c["status"] == "Satisfied" for c in covers):
                vac["covers_satisfied"] += 1
            else:
                vac["vacuous"].append("cover:" + name)
                res["undecided"].append("vacuity guard: end of harness %s not reachable (cover %s)" % (name, [c["status"] for c in covers] or "missing"))
        if h["expect"] == "failure":
            vac["must_fail_probes"] += 1
            ok = rr.get("status") == "Failure" and any(c["description"].strip('"').startswith("VACUITY-PROBE") for c in fails)
            if ok: vac["must_fail_refuted"] += 1
            else:
                vac["vacuous"].append(name)
                res["undecided"].append("vacuity guard: probe %s: its deliberately false claim was not refuted (status %s, failed %s)" % (name, rr.get("status"), [c["description"][:60] for c in fails][:3]))
            continue
        if counted:
            res["verified"] += len([c for c in props if c["status"] in ("Success", "Unreachable")])
            res["errors"] += len(fails)
        if fails: failed_ids.append(name)
    vac["probes"] = vac["reachability_covers"] + vac["must_fail_probes"]
    vac["rejected"] = vac["covers_satisfied"] + vac["must_fail_refuted"]
    res["vacuity"] = vac
    res["smt_ms"] = int(solver_s * 1000)
    floor = ucfg.get("min_verified")
    if floor and res["verified"] + res["errors"] < floor:
        res["undecided"].append("obligation count %d below recorded floor %d" % (res["verified"] + res["errors"], floor))
    # ---- phase 2: counterexamples for the failed harnesses, replayed on the real crate
    playback, replays, replay_cmd = {}, {}, None
    if failed_ids:
        hmap = {h["name"]: h for h in harnesses}
        # counterexamples are extracted sequentially (Kani refuses --concrete-playback with -j): at most `max_playback` failed
        # harnesses in spec order, plus the uncounted (known-finding) ones; contract harnesses through their __cex twin
        cap = int(ucfg.get("max_playback", 8))
        pb_ids = [n for n in failed_ids if hmap[n].get("counted", True)][:cap] + [n for n in failed_ids if not hmap[n].get("counted", True)]
        twin = lambda n: n + "__cex" if hmap[n]["kind"] == "contract" else n
        pb_cmd = kani_cmd(spec, [hid(twin(n)) for n in pb_ids], ["--output-format", "terse", "--harness-timeout", "%ds" % hto, "-Z", "concrete-playback", "--concrete-playback=print"])
        pb = run(pb_cmd, wrepo, kenv, hto * len(pb_ids) + 600)
        playback = parse_playback(pb["out"])
        res["playback_wall_s"] = round(pb["wall"], 2)
        if len(pb_ids) < len(failed_ids): res["notes"].append("counterexamples extracted for %d of %d failed harnesses (max_playback)" % (len(pb_ids), len(failed_ids)))
        cases = []                                             # (harness, check description, values)
        for n in pb_ids:
            k = len(hmap[n]["_inputs"])
            for (cat, desc, vals) in playback.get(hid(twin(n)), []):
                if cat == "cover" or len(vals) < k: continue
                cases.append((n, desc, vals[:k]))
        if cases and rbuild["rc"] == 0:
            renv2 = dict(renv, VERIF_REPLAY_CASES=";".join("%s:%s" % (n, ",".join(str(v) for v in vals)) for (n, _, vals) in cases))
            rr_ = run(["cargo", "test", "--offline", "-p", spec["package"], "--lib", test_filter, "--", "--exact", "--nocapture", "--test-threads=1"], wrepo, renv2, 900)
            res["replay_wall_s"] = round(rr_["wall"], 2)
            for l in rr_["out"].split("\n"):
                if "VERIF-REPLAY" not in l: continue
                p = l[l.index("VERIF-REPLAY"):].split("\t")
                if p[0] == "VERIF-REPLAY" and len(p) == 7:
                    replays.setdefault(int(p[1]), {"checks": [], "panic": None, "done": False})["checks"].append({"check": p[3], "observed": p[4], "expected": p[5], "ok": p[6] == "true"})
                elif p[0] == "VERIF-REPLAY-PANIC" and len(p) >= 4:
                    replays.setdefault(int(p[1]), {"checks": [], "panic": None, "done": False})["panic"] = p[3]
                elif p[0] == "VERIF-REPLAY-DONE" and len(p) >= 3:
                    replays.setdefault(int(p[1]), {"checks": [], "panic": None, "done": False})["done"] = True
            replay_cmd = "cd <scratch copy of the tree with kani/%s injected> && VERIF_REPLAY_CASES='%s' cargo test --offline -p %s --lib %s -- --exact --nocapture" % (os.path.basename(spec["_path"]), renv2["VERIF_REPLAY_CASES"], spec["package"], test_filter)
        elif cases:
            res["notes"].append("replay test binary did not build: %s" % compile_errors(rbuild["err"]))
            replay_cmd = None
        # ---- failure records
        src_lines = meta["text"].split("\n")
        for n in failed_ids:
            h = hmap[n]
            rr = results[hid(n)]
            for c in [c for c in rr["checks"] if c.get("category") != "cover" and c["status"] == "Failure"]:
                desc = c["description"]
                label = desc.strip('"')
                loc = c.get("location") or {}
                line = int(loc.get("line") or 0)
                fn = c.get("function")
                if loc.get("file") == spec["file"] and 0 < line <= meta["orig_lines"]:
                    where = "%s:%d" % (spec["file"], line)
                elif loc.get("file") == spec["file"] and meta["mod_first_line"] <= line < meta["mod_first_line"] + meta["mod_lines"]:
                    where = "/verif/kani/%s:%d" % (spec["module_file"], line - meta["mod_first_line"] + 1)
                else:
                    where = "%s:%s" % (loc.get("file"), loc.get("line")) if loc else None
                # the counterexample Kani produced for THIS check (else any counterexample of the harness)
                idxs = [i for i, (cn, cd, _) in enumerate(cases) if cn == n and cd.strip('"') == label] or [i for i, (cn, _, _) in enumerate(cases) if cn == n]
                witness = {"found": False, "note": "no concrete counterexample extracted for this harness" + ("" if n in pb_ids else " (beyond max_playback; see the other failed obligations)")}
                for i in idxs:
                    vals = cases[i][2]
                    inputs = {nm: v for (nm, _), v in zip(h["_inputs"], vals)}
                    rp = replays.get(i)
                    if rp is None:
                        witness = {"found": False, "inputs": inputs, "note": "counterexample from Kani could not be replayed (replay binary missing)"}; continue
                    bad = [x for x in rp["checks"] if not x["ok"]]
                    same = [x for x in bad if x["check"] == label]
                    if bad or rp["panic"]:
                        first = (same or bad or [None])[0]
                        witness = {"found": True, "how": "Kani concrete-playback counterexample replayed on the real crate: ordinary `cargo test --offline` of the scratch copy evaluating predicate p_%s, no kani" % n,
                                   "harness": hid(n), "inputs": inputs,
                                   "check": first["check"] if first else "no panic", "observed": first["observed"] if first else "panic: %s" % rp["panic"],
                                   "expected": first["expected"] if first else "no panic",
                                   "all_failed_checks_at_this_input": bad, "panic": rp["panic"], "replay_cmd": replay_cmd}
                        break
                    witness = {"found": False, "inputs": inputs, "note": "Kani's counterexample did NOT reproduce on the real code (all replayed checks passed)"}
                res["failures"].append({
                    "unit": unit, "message": "Kani FAILURE in harness %s: %s" % (n, label), "function": fn, "clause": label,
                    "site": (src_lines[line - 1].strip()[:200] if loc.get("file") == spec["file"] and 0 < line <= len(src_lines) else None),
                    "tags": h.get("tags", []), "tag_level": "harness", "harness": n, "harness_id": hid(n), "check": label, "category": c.get("category"),
                    "repo_location": where, "witness": witness})
            per[n]["witnesses"] = [{"check": f["check"], "witness": {k: v for k, v in f["witness"].items() if k in ("found", "inputs", "observed", "expected", "check", "note")}}
                                   for f in res["failures"] if f["harness"] == n][:4]
    res["kani_samples"] = [per[h["name"]] for h in harnesses if h["name"] in per]
    res["kani_summary"] = {"harnesses": len(per), "complete_proofs": sum(1 for p in per.values() if p["complete"] and p["expected"] == "success"),
                           "bounded": len(res["bounded"]), "cbmc_s": round(solver_s, 3)}

def count_vchk(modtext, name):
    """number of vchk! invocations in the body of fn p_<name> (None if the body cannot be delimited)"""
    m = re.search(r"\bfn\s+p_%s\s*\([^)]*\)\s*\{" % re.escape(name), modtext)
    if not m: return None
    i, depth = m.end(), 1
    while i < len(modtext) and depth:
        if modtext[i] == "{": depth += 1
        elif modtext[i] == "}": depth -= 1
        i += 1
    body = re.sub(r"//[^\n]*", "", modtext[m.end():i])
    return len(re.findall(r"\bvchk!\s*\(", body))

if __name__ == "__main__":
    import argparse, tempfile
    ap = argparse.ArgumentParser(description="run one Kani unit stand-alone and print its result (developer aid)")
    ap.add_argument("unit"); ap.add_argument("--repo", default="/repo"); ap.add_argument("--tier", default="quick")
    ap.add_argument("--only", default=None, help="comma separated substrings of harness names")
    a = ap.parse_args()
    if a.only: ONLY = a.only.split(",")
    sc = tempfile.mkdtemp(prefix="verif-kani-")
    try:
        r = analyse(a.unit, a.repo, sc, a.tier, 0, {}, None)
        print(json.dumps(r, indent=1))
    finally:
        shutil.rmtree(sc, ignore_errors=True)
