#!/usr/bin/env python3
"""Mechanical extractor + contract splicer.

A *unit template* (vc/units/<unit>.rs.tmpl) is a Verus source file with holes.  Plain lines are
copied as they are (spec functions, lemmas, trusted prelude).  Directives:

  //@include <path relative to vc/>
  //@serves C01 C07            (outside an extract block: property tags for the template text that follows)
  //@extract <repo-relative file> :: <path>       path elements:  fn f | struct S | enum E | const C | type T
                                                   | impl <header> | mod m   (joined with ' :: ')
      //@serves C01 C07        properties whose cone contains this function
      //@attr <text>           line(s) put in front of the item (e.g. a derive list)
      //@ret <name>            name the return value:  -> T   becomes   -> (name: T)
      //@trusted <reason>      keep the signature, drop the body (#[verifier::external_body]); listed as trusted
      //@subst R<k> "<from>" => "<to>"    textual rewrite of DESIGN 2.3; must match at least once
      //@subst-opt R<k> "<from>" => "<to>"   the same, but zero occurrences are fine (used to route allocation APIs that the
                               code does not call today, e.g. `Vec::with_capacity(`, to budgeted prelude shims if they appear)
      //@r3 <loop ordinal>     rewrite `for (a,b) in X.into_iter().enumerate()` / `for a in X` to an index loop
      //@orpat-guard R<k>      rewrite every match arm `P1 | P2 | .. if G =>` whose Pi are constant paths (Verus rejects an
                               or-pattern combined with a guard) to `__m if (__m == P1 || __m == P2 ..) && (G) =>`; zero
                               occurrences are fine.  Assumes the Pi are integer constants (matching == equality).
      //@optmap-stmt R<k>      rewrite every STATEMENT `RECV.map(|x| EXPR);` (result discarded) to `if let Some(x) = RECV { EXPR; }`
                               (Verus rejects closures that capture `&mut`).  Zero occurrences are fine.  Assumes RECV is an Option
                               (anything else no longer type-checks: exit 2); a `.map(|x| ..)` that is not a whole statement is left alone.
      //@castfn R<k> <ty>..    rewrite every `OPERAND as <ty>` (ty in f64 f32 u32 ..; OPERAND = a path / field / call / parenthesised
                               expression) to `OPERAND.cast_<ty>()`, a trait-dispatched prelude shim whose contract names the cast as
                               an uninterpreted FUNCTION of its argument (Verus itself leaves float casts unspecified).  Zero
                               occurrences are fine; an operand behind a unary operator stops the unit (exit 2).
      //@spec                  following lines: requires/ensures/decreases clauses (before the body brace)
      //@loop <n>              following lines: invariant/decreases clauses of the n-th loop (textual order, 1-based)
      //@before "<anchor>" [#k] / //@after "<anchor>" [#k]   following lines: ghost text spliced before/after the
                               line that contains the k-th occurrence of the anchor text
      //@before-opt / //@after-opt   the same, but a missing anchor is fine (the ghost text is then simply not spliced; used for
                               per-statement bookkeeping whose ABSENCE makes a later obligation fail instead of stopping the unit)
      //@bodystart             following lines: ghost text right after the opening brace of the body
  //@end

The item text is copied verbatim from /repo's working tree; nothing but the listed edits is applied.
Every edit is recorded, and `verify_faithful` re-derives the original text by undoing them.
"""
import sys, os, re, json, hashlib
sys.path.insert(0, os.path.dirname(os.path.abspath(__file__)))
import rustlex

VC = os.path.join(os.path.dirname(os.path.dirname(os.path.abspath(__file__))), "vc")

class ToolError(Exception):
    """lost anchor / unsupported construct / malformed template -> exit 2 (never an alarm)"""

def parse_quoted(s):
    """parse a JSON-style quoted string at the start of s; return (value, rest)"""
    s = s.lstrip()
    if not s.startswith('"'): raise ToolError("expected quoted string in directive: %r" % s)
    dec = json.JSONDecoder()
    val, idx = dec.raw_decode(s)
    return val, s[idx:]

class Block:
    def __init__(self, file, path, line):
        self.file, self.path, self.line = file, path, line
        self.serves = []
        self.attrs = []
        self.ret = None
        self.trusted = None
        self.as_spec = None   # //@as-spec <name>: the body of a pure exec fn is ALSO taken as the definition of a spec fn
        self.substs = []      # (rid, from, to)
        self.subst_opt = set()   # (rid, from) of the //@subst-opt entries
        self.r3 = []          # loop ordinals
        self.orpat = None     # rewrite id of //@orpat-guard
        self.optmap = None    # rewrite id of //@optmap-stmt
        self.castfn = None    # (rewrite id, [types]) of //@castfn
        self.spec = None
        self.loops = {}       # n -> text
        self.loop_kw = {}     # n -> expected loop keyword
        self.anchored = []    # (where, anchor, k, text)
        self.bodystart = None
        self.strip_inner_attrs = True

def read_template(path, seen=None):
    """flatten includes; returns list of (origin_file, origin_line, text)"""
    seen = seen or []
    if path in seen: raise ToolError("include cycle: %s" % path)
    out = []
    with open(path) as f:
        for n, line in enumerate(f.read().split("\n"), 1):
            m = re.match(r"\s*//@include\s+(\S+)\s*$", line)
            if m:
                out.extend(read_template(os.path.join(VC, m.group(1)), seen + [path]))
            else:
                out.append((path, n, line))
    return out

def locate(repo, relfile, path, cache):
    full = os.path.join(repo, relfile)
    if full not in cache:
        if not os.path.exists(full): raise ToolError("LOST-ANCHOR file %s does not exist" % relfile)
        src = open(full).read()
        toks, items = rustlex.top_items(src)
        # The extractor drops `use` lines, so a renaming import (`use a::X as Y`) or a shadowing alias would make the
        # verified text name something else than the code that runs: refuse (exit 2), never guess.
        code = "\n".join(l.split("//")[0] for l in src.split("\n"))
        for m in re.finditer(r"\buse\s+[^;]*;", code):
            for a in re.finditer(r"\bas\s+([A-Za-z_][A-Za-z0-9_]*)", m.group(0)):
                if a.group(1) != "_":
                    raise ToolError("UNSUPPORTED %s: renaming import `%s` (the extractor resolves names textually)" % (relfile, rustlex.norm(m.group(0))[:120]))
        cache[full] = (src, items)
    src, items = cache[full]
    elems = [e.strip() for e in path.split("::") if e.strip()]
    # '::' also occurs inside impl headers (e.g. `impl fmt::Display for X`): re-join greedily
    cur = items
    item = None
    i = 0
    while i < len(elems):
        matched = None
        # try longest join first
        for j in range(len(elems), i, -1):
            cand = rustlex.norm(" :: ".join(elems[i:j])).replace(" :: ", "::")
            kind, _, name = cand.partition(" ")
            for it in cur:
                if kind == "impl" and it.kind == "impl" and it.header.replace(" :: ", "::") == cand:
                    matched = (it, j); break
                if kind != "impl" and it.kind == kind and it.name == name:
                    matched = (it, j); break
            if matched: break
        if not matched:
            raise ToolError("LOST-ANCHOR %s :: %s (element %r not found)" % (relfile, path, elems[i]))
        item, i = matched
        if i < len(elems):
            if item.kind in ("impl", "mod", "trait"):
                cur = rustlex.impl_children(src, item)
            else:
                raise ToolError("LOST-ANCHOR %s :: %s (cannot descend into %s)" % (relfile, path, item.kind))
    return src, item

def line_of(src, pos):
    return src.count("\n", 0, pos) + 1

RUST_KEYWORDS = set("as break const continue crate else enum extern false fn for if impl in let loop match mod move mut pub ref return self Self static struct super trait true type unsafe use where while async await dyn".split())
_BASELINE_FNS = None

def var_idents(src):
    """lower-case identifiers of a piece of Rust text in order of first occurrence, leaving out method/field names (after `.`),
    path segments (next to `::`), calls and macros (before `(` / `!`)"""
    toks = [t for t in rustlex.lex(src) if t.kind != "comment"]
    out, seen = [], set()
    for i, t in enumerate(toks):
        if t.kind != "ident" or t.text in RUST_KEYWORDS or not (t.text[0].islower() or t.text[0] == "_"): continue
        prev = toks[i - 1].text if i else ""
        nxt = toks[i + 1].text if i + 1 < len(toks) else ""
        if prev in (".", "::") or nxt in ("(", "!", "::"): continue
        if t.text not in seen: seen.add(t.text); out.append(t.text)
    return out

def rename_map(blk, text):
    """R16.  Ghost text (contract clauses, loop invariants, hints) and text anchors name locals and parameters of the real function.
    If the identifiers of the function's text differ from its BASELINE text (vc/baseline_fns.json: the tree on which the unit was
    written) by a consistent renaming - k identifiers no longer occur anywhere in the function, k new ones occur, paired in order of
    first occurrence (positional for parameters) - that renaming is applied to the ghost text and the anchors of this item.  The real
    code is never touched.  Only occurrences of identifiers that no longer exist in the function are replaced, so ghost text that
    would still compile is left as it is.  Sound whatever the pairing: a proof that goes through IS a proof of the contract for the
    code as it stands; a function verified with adapted ghost text that FAILS is reported undecided, never as a violation."""
    global _BASELINE_FNS
    if _BASELINE_FNS is None:
        try: _BASELINE_FNS = json.load(open(os.path.join(VC, "baseline_fns.json")))
        except Exception: _BASELINE_FNS = {}
    old = _BASELINE_FNS.get("%s :: %s" % (blk.file, blk.path))
    if not old or old == text: return {}
    ro, ao = var_idents(old), var_idents(text)
    removed = [x for x in ro if x not in set(ao)]; added = [x for x in ao if x not in set(ro)]
    if not removed or len(removed) != len(added): return {}
    return dict(zip(removed, added))

def apply_rename(mapping, s):
    if not mapping or s is None: return s
    # same notion of "variable occurrence" as var_idents: not a field / method (after `.`), not a path segment, not a call or macro
    for a, b in mapping.items(): s = re.sub(r"(?<![\w.])(?<!::)%s(?![\w(!])(?!\s*::)" % re.escape(a), "\x00" + b, s)
    return s.replace("\x00", "")

def build_item(repo, blk, cache):
    src, item = locate(repo, blk.file, blk.path, cache)
    T0 = item.start
    text = src[item.start:item.end]
    edits = []   # (pos_abs, del_len, ins_text, tag)
    def add(pos, dl, ins, tag): edits.append((pos, dl, ins, tag))
    rewrites = []
    skipped_opt = []
    # R16: adapt ghost text and anchors to renamed locals / parameters (see rename_map)
    ren = rename_map(blk, text) if item.kind == "fn" else {}
    if ren:
        before = json.dumps([blk.spec, blk.loops, blk.anchored, blk.bodystart, blk.substs], default=list, sort_keys=True)
        blk.spec = apply_rename(ren, blk.spec); blk.bodystart = apply_rename(ren, blk.bodystart)
        blk.loops = {n: apply_rename(ren, t) for n, t in blk.loops.items()}
        blk.anchored = [tuple(apply_rename(ren, x) if isinstance(x, str) and i in (1, 3) else x for i, x in enumerate(a)) for a in blk.anchored]
        new_substs = [(rid, apply_rename(ren, frm), apply_rename(ren, to)) for rid, frm, to in blk.substs]
        blk.subst_opt = set((rid, apply_rename(ren, frm)) for rid, frm in blk.subst_opt)
        blk.substs = new_substs
        after = json.dumps([blk.spec, blk.loops, blk.anchored, blk.bodystart, blk.substs], default=list, sort_keys=True)
        if before != after:
            rewrites.append({"id": "R16", "ghost_text_adapted_to_renamed_identifiers": ren})
        else:
            ren = {}
    # R17: NEW debug assertions.  `debug_assert*!` is compiled out of release builds.  One that is in the baseline text of the function
    # is kept and verified (its condition is an obligation the unit was written for); one that is NOT in the baseline text is dropped
    # from the verified text and listed as rewrite R17 - the verdict is then about the release semantics of the function, and a new
    # debug assertion that can fire (a panic in debug builds only) is not seen by this unit (Verus has no support for
    # debug_assert_eq!/_ne! at all, and a new debug_assert! is a new obligation without proof text).
    if item.kind == "fn":
        global _BASELINE_FNS
        if _BASELINE_FNS is None:
            try: _BASELINE_FNS = json.load(open(os.path.join(VC, "baseline_fns.json")))
            except Exception: _BASELINE_FNS = {}
        base_txt = _BASELINE_FNS.get("%s :: %s" % (blk.file, blk.path))
        if base_txt is not None and base_txt != text and "debug_assert" in text:
            base_norm = rustlex.norm(base_txt)
            tk = [t for t in rustlex.lex(text) if t.kind != "comment"]
            n17 = 0
            for i, t in enumerate(tk):
                if t.kind == "ident" and t.text in ("debug_assert", "debug_assert_eq", "debug_assert_ne") and i + 2 < len(tk) and tk[i + 1].text == "!" and tk[i + 2].text == "(":
                    k = rustlex.match_close(tk, i + 2)
                    end = tk[k].end
                    if k + 1 < len(tk) and tk[k + 1].text == ";": end = tk[k + 1].end
                    stmt = text[t.start:end]
                    if rustlex.norm(stmt) not in base_norm:
                        add(T0 + t.start, end - t.start, "", "R17"); n17 += 1
            if n17: rewrites.append({"id": "R17", "new_debug_assertions_dropped": n17})
    # strip inner attributes of struct/enum items (e.g. thiserror's #[error], #[from])
    if item.kind in ("struct", "enum") and blk.strip_inner_attrs:
        toks = item.toks
        j = 0
        while j < len(toks):
            t = toks[j]
            if t.kind == "punct" and t.text == "#" and toks[j+1].text == "[":
                k = rustlex.match_close(toks, j + 1)
                add(t.start, toks[k].end - t.start, "", "strip-attr")
                j = k + 1
            else:
                j += 1
    parts = None
    if item.kind == "fn":
        parts = rustlex.fn_parts(item)
    for rid, frm, to in blk.substs:
        cnt = 0
        start = 0
        while True:
            p = text.find(frm, start)
            if p < 0: break
            add(T0 + p, len(frm), to, rid)
            cnt += 1
            start = p + len(frm)
        if cnt == 0:
            if (rid, frm) in blk.subst_opt: continue
            raise ToolError("LOST-ANCHOR rewrite %s: %r not found in %s :: %s" % (rid, frm, blk.file, blk.path))
        rewrites.append({"id": rid, "from": frm, "to": to, "occurrences": cnt})
    # R7 (automatic, purely syntactic): Verus rejects `_` as a closure parameter; `|_|` becomes `|_v|`
    if item.kind == "fn":
        cnt7 = 0
        for m7 in re.finditer(r"\|\s*_\s*\|", text):
            add(T0 + m7.start(), m7.end() - m7.start(), "|_v|", "R7"); cnt7 += 1
        if cnt7: rewrites.append({"id": "R7", "from": "|_|", "to": "|_v|", "occurrences": cnt7})
    # R5 (automatic form, purely syntactic): `std::cmp::min(` / `core::cmp::max(` / `cmp::min(` -> the prelude shim `min(` / `max(`
    # (same meaning, prelude/core.rs.inc) wherever no explicit //@subst of the function already rewrites it, so that a NEW use of
    # min / max in an extracted function does not stop the unit in the front end
    if item.kind == "fn" and not any("cmp::m" in frm for _, frm, _ in blk.substs):
        cnt5 = 0
        for m5 in re.finditer(r"\b(?:(?:std|core)::)?cmp::(min|max)\s*\(", text):
            add(T0 + m5.start(), m5.end() - m5.start(), m5.group(1) + "(", "R5"); cnt5 += 1
        if cnt5: rewrites.append({"id": "R5", "from": "[std::]cmp::min|max(", "to": "min|max(", "occurrences": cnt5})
    if blk.orpat and item.kind == "fn":
        cnto = 0
        for mo in re.finditer(r"(?m)^([ \t]*)([A-Za-z_][A-Za-z0-9_:]*(?:\s*\|\s*[A-Za-z_][A-Za-z0-9_:]*)+)\s+if\s+", text):
            # the guard ends at the first `=>` outside brackets
            depth, q, end = 0, mo.end(), -1
            while q < len(text) - 1:
                c = text[q]
                if c in "([{": depth += 1
                elif c in ")]}": depth -= 1
                elif depth == 0 and text[q:q+2] == "=>" and text[q-1] not in "=<>": end = q; break
                q += 1
            if end < 0: raise ToolError("UNSUPPORTED //@orpat-guard: no `=>` after the guard in %s" % blk.path)
            g_end = end
            while g_end > mo.end() and text[g_end-1] in " \t\r\n": g_end -= 1
            pats = [x.strip() for x in mo.group(2).split("|")]
            add(T0 + mo.start(), mo.end() - mo.start(), mo.group(1) + "__m if (" + " || ".join("__m == %s" % x for x in pats) + ") && (", blk.orpat)
            add(T0 + g_end, 0, ")", blk.orpat)
            cnto += 1
        if cnto: rewrites.append({"id": blk.orpat, "from": "P1 | P2 .. if G =>", "to": "__m if (__m == P1 || ..) && (G) =>", "occurrences": cnto})
    if blk.optmap and item.kind == "fn":
        # R13: statement-position `RECV.map(|x| EXPR);` -> `if let Some(x) = RECV { EXPR; }`  (token based)
        tk = item.toks
        cnt13 = 0
        for i in range(len(tk) - 6):
            if not (tk[i].text == "." and tk[i+1].text == "map" and tk[i+2].text == "(" and tk[i+3].text == "|"
                    and tk[i+4].kind == "ident" and tk[i+5].text == "|"): continue
            close = rustlex.match_close(tk, i + 2)
            if close + 1 >= len(tk) or tk[close+1].text != ";": continue          # value is used: not a statement
            # receiver: back to the previous `;` `{` `}` at depth 0
            depth, j = 0, i - 1
            while j >= 0:
                tx = tk[j].text if tk[j].kind == "punct" else None
                if tx in (")", "]"): depth += 1
                elif tx in ("(", "["): depth -= 1
                elif depth == 0 and tx in (";", "{", "}"): break
                j -= 1
            start = j + 1
            if start >= i: continue
            if tk[start].kind == "ident" and tk[start].text in ("let", "return", "break", "match", "if", "while", "for", "else"): continue
            if any(t.kind == "punct" and t.text in ("=", "=>") for t in tk[start:i]): continue
            add(tk[start].start, 0, "if let Some(%s) = " % tk[i+4].text, blk.optmap)
            add(tk[i].start, tk[i+5].end - tk[i].start, " {", blk.optmap)
            add(tk[close].start, tk[close+1].end - tk[close].start, "; }", blk.optmap)
            cnt13 += 1
        if cnt13: rewrites.append({"id": blk.optmap, "from": "RECV.map(|x| EXPR);", "to": "if let Some(x) = RECV { EXPR; }", "occurrences": cnt13})
    if blk.castfn and item.kind == "fn":
        # R15: `OPERAND as <ty>` -> `OPERAND.cast_<ty>()`  (token based; the shim is resolved by the operand's type)
        rid15, tys15 = blk.castfn
        tk = item.toks
        cnt15 = 0
        for i in range(1, len(tk) - 1):
            if not (tk[i].kind == "ident" and tk[i].text == "as" and tk[i+1].kind == "ident" and tk[i+1].text in tys15): continue
            j = i - 1          # last token of the operand
            k = j
            while True:
                t = tk[k]
                if t.kind == "punct" and t.text in (")", "]"):
                    depth = 0
                    while k >= 0:
                        if tk[k].kind == "punct" and tk[k].text in (")", "]"): depth += 1
                        elif tk[k].kind == "punct" and tk[k].text in ("(", "["):
                            depth -= 1
                            if depth == 0: break
                        k -= 1
                    if k < 0: raise ToolError("UNSUPPORTED //@castfn: unbalanced operand in %s" % blk.path)
                    if k > 0 and (tk[k-1].kind == "ident" and tk[k-1].text not in ("as", "in", "return", "if", "match", "else")): k -= 1; continue   # call / index: keep going left
                    break
                elif t.kind in ("ident", "num"):
                    if k > 0 and tk[k-1].kind == "punct" and tk[k-1].text in (".", "::") and k > 1: k -= 2; continue
                    break
                else:
                    raise ToolError("UNSUPPORTED //@castfn: operand of `as %s` in %s" % (tk[i+1].text, blk.path))
            if k > 0 and tk[k-1].kind == "punct" and tk[k-1].text in ("-", "!", "*", "&"):
                raise ToolError("UNSUPPORTED //@castfn: operand of `as %s` behind operator `%s` in %s" % (tk[i+1].text, tk[k-1].text, blk.path))
            add(tk[j].end, tk[i+1].end - tk[j].end, ".cast_%s()" % tk[i+1].text, rid15)
            cnt15 += 1
        if cnt15: rewrites.append({"id": rid15, "from": "OPERAND as <ty>", "to": "OPERAND.cast_<ty>()", "types": tys15, "occurrences": cnt15})
    if blk.ret:
        if not parts or not parts["ret"]: raise ToolError("//@ret on item without return type: %s" % blk.path)
        a, b = parts["ret"]
        add(a, 0, "(%s: " % blk.ret, "ghost-ret")
        add(b, 0, ")", "ghost-ret")
    loops = rustlex.loop_headers(item) if item.kind == "fn" else []
    if blk.as_spec is not None:
        # `fn name(` -> `pub open spec fn <specname>(` : the (pure, loop-free) body is reused verbatim as a spec definition, so a
        # POLICY of the library (which it is free to change) is mirrored mechanically instead of being pinned by hand
        if not parts: raise ToolError("//@as-spec on non-fn %s" % blk.path)
        m = re.search(r"\bfn\s+%s\b" % re.escape(item.name), text)
        if not m: raise ToolError("//@as-spec: cannot find the fn keyword of %s" % item.name)
        add(T0, m.end(), "pub open spec fn %s" % blk.as_spec, "as-spec")
        rewrites.append({"id": "as-spec", "from": item.name, "to": blk.as_spec})
    if blk.trusted is not None:
        if not parts: raise ToolError("//@trusted on non-fn %s" % blk.path)
        add(parts["body_open"], parts["body_close"] + 1 - parts["body_open"], "{ unimplemented!() }", "trusted-body")
    if blk.spec is not None:
        if not parts: raise ToolError("//@spec on non-fn %s" % blk.path)
        add(parts["body_open"], 0, "\n" + blk.spec + "\n", "ghost-spec")
    if blk.bodystart is not None:
        add(parts["body_open"] + 1, 0, "\n" + blk.bodystart + "\n", "ghost-body")
    for n in blk.r3:
        if n < 1 or n > len(loops): raise ToolError("LOST-ANCHOR //@r3 %d: %s has %d loops" % (n, blk.path, len(loops)))
        kw, kpos, bpos, cpos = loops[n - 1]
        if kw != "for": raise ToolError("UNSUPPORTED //@r3 %d on a `%s` loop in %s" % (n, kw, blk.path))
        header = src[kpos:bpos]
        m = re.match(r"for\s+\(\s*(\w+)\s*,\s*(\w+)\s*\)\s+in\s+(.+?)\.into_iter\(\)\.enumerate\(\)\s*$", header, re.S)
        body = src[bpos:cpos]
        if re.search(r"\bcontinue\b", body): raise ToolError("UNSUPPORTED //@r3: loop body contains `continue` (%s)" % blk.path)
        if m:
            a, b, x = m.group(1), m.group(2), m.group(3)
            add(kpos, bpos - kpos, "let __items%d = %s; let mut __i%d: usize = 0; while __i%d < __items%d.len() " % (n, x, n, n, n), "R3")
            add(bpos + 1, 0, " let %s = __i%d; let %s = __items%d[__i%d];" % (a, n, b, n, n), "R3")
            add(cpos, 0, " __i%d = __i%d + 1; " % (n, n), "R3")
        else:
            m = re.match(r"for\s+(\w+)\s+in\s+(.+?)\s*$", header, re.S)
            if not m: raise ToolError("UNSUPPORTED //@r3: loop header %r (%s)" % (header, blk.path))
            a, x = m.group(1), m.group(2)
            add(kpos, bpos - kpos, "let __items%d = shim_collect(%s); let mut __i%d: usize = 0; while __i%d < __items%d.len() " % (n, x, n, n, n), "R3")
            add(bpos + 1, 0, " let %s = __items%d[__i%d];" % (a, n, n), "R3")
            add(cpos, 0, " __i%d = __i%d + 1; " % (n, n), "R3")
        rewrites.append({"id": "R3", "loop": n, "header": rustlex.norm(header)})
    for n, ltext in blk.loops.items():
        if n < 1 or n > len(loops): raise ToolError("LOST-ANCHOR //@loop %d: %s has %d loops" % (n, blk.path, len(loops)))
        kw, kpos, bpos, cpos = loops[n - 1]
        if os.environ.get("VERIF_PRINT_LOOPS"): print("LOOPKW\t%s\t%s\t%d\t%s" % (blk.file, blk.path, n, kw))
        if blk.loop_kw.get(n) and blk.loop_kw[n] != kw:
            raise ToolError("LOST-ANCHOR //@loop %d: the ghost text was written for a `%s` loop, %s :: %s now has a `%s` loop there" % (n, blk.loop_kw[n], blk.file, blk.path, kw))
        add(bpos, 0, "\n" + ltext + "\n", "ghost-loop")
    for where, anchor, k, atext, *aopt in blk.anchored:
        # search inside the body only
        lo = parts["body_open"] - T0 if parts else 0
        p = lo - 1
        for _ in range(k):
            p = text.find(anchor, p + 1)
            if p < 0: break
        if p < 0:
            if aopt:
                # a skipped optional hint: obligations of this function that fail may fail for want of the hint (undecided-class)
                rewrites.append({"id": "skipped-optional-anchor", "anchor": anchor}); skipped_opt.append(anchor); continue
            # A lost anchor of PURE proof text (no `// [Cxx]` tag, no OBLIGATION marker in it) is skipped like an optional one: the
            # function is then verified without that hint; if it verifies, that is a proof of its contract for the code as it stands, if
            # it fails, the failure is undecided-class (item marked `adapted`).  Ghost text that carries a property tag is a clause of
            # the property: dropping it would drop an obligation, so there the unit still stops.
            if not TAG_RE.search(atext) and "OBLIGATION" not in atext:
                rewrites.append({"id": "skipped-lost-anchor", "anchor": anchor}); skipped_opt.append(anchor); continue
            raise ToolError("LOST-ANCHOR //@%s %r #%d not found in %s :: %s" % (where, anchor, k, blk.file, blk.path))
        if where == "before":
            ls = text.rfind("\n", 0, p) + 1
            add(T0 + ls, 0, atext + "\n", "ghost-proof")
        else:
            le = text.find("\n", p + len(anchor))
            if le < 0: le = len(text)
            add(T0 + le, 0, "\n" + atext, "ghost-proof")
    # order edits; stable for equal positions (insertion order), deletions must not overlap
    edits_sorted = sorted(enumerate(edits), key=lambda e: (e[1][0], 0 if e[1][1] == 0 else 1, e[0]))
    edits_sorted = [e for _, e in edits_sorted]
    out = []
    segs = []    # (gen_offset, length, kind, orig_abs_pos or None, tag)
    pos = T0
    for (p, dl, ins, tag) in edits_sorted:
        if p < pos: raise ToolError("overlapping edits in %s :: %s at %d (tag %s)" % (blk.file, blk.path, p, tag))
        if p > pos:
            out.append(("orig", src[pos:p], pos, None))
        if ins or dl:
            out.append(("edit", ins, p, (tag, src[p:p+dl])))
        pos = p + dl
    if pos < item.end:
        out.append(("orig", src[pos:item.end], pos, None))
    gen = "".join(x[1] for x in out)
    # faithfulness: undo edits
    undone = "".join(x[1] if x[0] == "orig" else x[3][1] for x in out)
    if undone != text:
        raise ToolError("faithfulness self-check failed for %s :: %s" % (blk.file, blk.path))
    info = {
        "file": blk.file, "path": blk.path, "kind": item.kind, "name": item.name,
        "orig_lines": [line_of(src, item.start), line_of(src, item.end)],
        "sha256": hashlib.sha256(text.encode()).hexdigest(),
        "rewrites": rewrites, "trusted": blk.trusted, "serves": blk.serves,
        "has_contract": blk.spec is not None,
        "adapted": bool(ren) or bool(skipped_opt),
        "stripped_inner_attrs": sum(1 for e in edits if e[3] == "strip-attr"),
    }
    return gen, out, info, src

TAG_RE = re.compile(r"//\s*\[((?:C\d+[ ,]*)+)\]")

def generate(repo, unit_tmpl):
    """returns (generated_text, meta) ; meta has per-line map"""
    lines = read_template(unit_tmpl)
    cache = {}
    gen_lines = []       # list of text lines
    linemap = []         # per generated line: dict(kind, item_idx, orig_file, orig_line, tmpl_file, tmpl_line, tags)
    items = []
    cur_serves = []
    i = 0
    def emit(text, meta):
        for l in text.split("\n"):
            gen_lines.append(l)
            linemap.append(dict(meta))
    while i < len(lines):
        tf, tn, line = lines[i]
        s = line.strip()
        if s.startswith("//@serves"):
            cur_serves = s.split()[1:]
            i += 1; continue
        if s.startswith("//@extract"):
            m = re.match(r"//@extract\s+(\S+)\s*::\s*(.+)$", s)
            if not m: raise ToolError("%s:%d malformed //@extract" % (tf, tn))
            blk = Block(m.group(1), m.group(2).strip(), tn)
            i += 1
            cur = None   # current text-collecting target
            def flush(cur, buf):
                if cur is None: return
                text = "\n".join(buf)
                if cur[0] == "spec": blk.spec = text
                elif cur[0] == "loop": blk.loops[cur[1]] = text
                elif cur[0] in ("before", "after"): blk.anchored.append((cur[0], cur[1], cur[2], text) + tuple(cur[3:]))
                elif cur[0] == "bodystart": blk.bodystart = text
            buf = []
            while True:
                if i >= len(lines): raise ToolError("%s:%d //@extract without //@end" % (tf, tn))
                _, n2, l2 = lines[i]
                s2 = l2.strip()
                if s2.startswith("//@"):
                    flush(cur, buf); cur, buf = None, []
                    d, _, rest = s2[3:].partition(" ")
                    rest = rest.strip()
                    if d == "end": i += 1; break
                    elif d == "serves": blk.serves = rest.split()
                    elif d == "attr": blk.attrs.append(rest)
                    elif d == "ret": blk.ret = rest
                    elif d == "trusted": blk.trusted = rest or "unspecified"
                    elif d == "as-spec": blk.as_spec = rest
                    elif d == "keep-inner-attrs": blk.strip_inner_attrs = False
                    elif d in ("subst", "subst-opt"):
                        rid, _, r2 = rest.partition(" ")
                        frm, r3 = parse_quoted(r2)
                        r3 = r3.strip()
                        if not r3.startswith("=>"): raise ToolError("%s:%d malformed //@subst" % (tf, n2))
                        to, _ = parse_quoted(r3[2:])
                        blk.substs.append((rid, frm, to))
                        if d == "subst-opt": blk.subst_opt.add((rid, frm))
                    elif d == "r3": blk.r3.append(int(rest))
                    elif d == "orpat-guard": blk.orpat = rest or "R11"
                    elif d == "optmap-stmt": blk.optmap = rest or "R13"
                    elif d == "castfn":
                        ws = rest.split()
                        if len(ws) < 2: raise ToolError("%s:%d malformed //@castfn (id and at least one type)" % (tf, n2))
                        blk.castfn = (ws[0], ws[1:])
                    elif d == "spec": cur = ("spec",)
                    elif d == "loop":
                        ws = rest.split()
                        cur = ("loop", int(ws[0]))
                        # optional second word: the loop keyword the ghost text was written for (`loop` / `while` / `for`); a
                        # loop of another kind at that position means the splice no longer fits (tool limit, not a failure)
                        if len(ws) > 1: blk.loop_kw[int(ws[0])] = ws[1]
                    elif d in ("before", "after", "before-opt", "after-opt"):
                        anchor, r2 = parse_quoted(rest)
                        k = 1
                        mk = re.match(r"\s*#(\d+)", r2)
                        if mk: k = int(mk.group(1))
                        cur = (d.replace("-opt", ""), anchor, k) + (("opt",) if d.endswith("-opt") else ())
                    elif d == "bodystart": cur = ("bodystart",)
                    else: raise ToolError("%s:%d unknown directive //@%s" % (tf, n2, d))
                else:
                    if cur is not None: buf.append(l2)
                    elif s2: raise ToolError("%s:%d stray text inside //@extract block: %r" % (tf, n2, l2))
                i += 1
            if not blk.serves: blk.serves = list(cur_serves)
            gen, pieces, info, src = build_item(repo, blk, cache)
            idx = len(items)
            info["tmpl"] = "%s:%d" % (os.path.relpath(tf, VC), blk.line)
            for a in blk.attrs:
                emit(a, {"kind": "attr", "item": idx})
            if blk.trusted is not None:
                emit("#[verifier::external_body]", {"kind": "attr", "item": idx})
            # emit pieces line by line with origin
            info["gen_line_start"] = len(gen_lines) + 1
            curline_text = ""
            curline_meta = None
            def newmeta(kind, orig_line, tag):
                return {"kind": kind, "item": idx, "orig_file": blk.file, "orig_line": orig_line, "tag": tag}
            pending = []   # list of (char, meta)
            # Build per-line metadata: a generated line is 'orig' if any original char is on it, else 'ghost'
            buf_line = []
            line_kinds = []
            def endline():
                text = "".join(c for c, _ in buf_line)
                origs = [m for _, m in buf_line if m[0] == "orig"]
                edits_ = [m for _, m in buf_line if m[0] == "edit"]
                if origs:
                    meta = newmeta("orig", origs[0][1], edits_[0][2] if edits_ else None)
                elif edits_:
                    meta = newmeta("ghost", edits_[0][1], edits_[0][2])
                else:
                    meta = newmeta("orig", None, None)
                gen_lines.append(text); linemap.append(meta)
                buf_line.clear()
            for kind, text, p, extra in pieces:
                if kind == "orig":
                    ol = line_of(src, p)
                    for ch in text:
                        if ch == "\n":
                            endline(); ol += 1
                        else:
                            buf_line.append((ch, ("orig", ol)))
                else:
                    ol = line_of(src, p)
                    for ch in text:
                        if ch == "\n": endline()
                        else: buf_line.append((ch, ("edit", ol, extra[0])))
            endline()
            info["gen_line_end"] = len(gen_lines)
            items.append(info)
            continue
        if s.startswith("//@") and not s.startswith("//@@"):
            raise ToolError("%s:%d unknown directive %s" % (tf, tn, s))
        gen_lines.append(line)
        linemap.append({"kind": "tmpl", "tmpl_file": os.path.relpath(tf, VC), "tmpl_line": tn, "serves": list(cur_serves)})
        i += 1
    # clause-level tags: a `// [C07,C01]` marker tags its line; lines of the same ghost block inherit upward
    for k, l in enumerate(gen_lines):
        m = TAG_RE.search(l)
        if m:
            linemap[k]["ctags"] = re.findall(r"C\d+", m.group(1))
    text = "\n".join(gen_lines) + "\n"
    return text, {"items": items, "linemap": linemap}

# ---------------------------------------------------------------------------------------------
# function table of a generated file (for attribution of errors and for the vacuity variant)

def fn_table(text):
    toks_all = rustlex.lex(text)
    toks = [t for t in toks_all]   # keep comments out for structure
    ctoks = [t for t in toks if t.kind != "comment"]
    out = []
    n = len(ctoks)
    for i, t in enumerate(ctoks):
        if not (t.kind == "ident" and t.text == "fn"): continue
        if i + 1 >= n or ctoks[i+1].kind != "ident": continue
        # look back for qualifiers / attributes up to previous ';' '{' '}' (attributes end with ']')
        j = i - 1
        quals = []
        while j >= 0:
            tt = ctoks[j]
            if tt.kind == "punct" and tt.text in (";", "{", "}"): break
            if tt.kind == "punct" and tt.text == "]":
                # skip back over attribute
                depth = 0
                while j >= 0:
                    if ctoks[j].text == "]": depth += 1
                    elif ctoks[j].text == "[":
                        depth -= 1
                        if depth == 0: break
                    quals.append(ctoks[j].text)
                    j -= 1
                j -= 1  # the '#'
                if j >= 0 and ctoks[j].text == "#": j -= 1
                continue
            quals.append(tt.text)
            j -= 1
        start_tok = ctoks[j + 1] if j + 1 <= i else t
        name = ctoks[i+1].text
        mode = "spec" if "spec" in quals else ("proof" if "proof" in quals else "exec")
        external = "external_body" in quals or "external" in quals
        # parameter list
        k = i + 2
        if ctoks[k].text == "<":
            depth = 0
            while True:
                if ctoks[k].text == "<": depth += 1
                elif ctoks[k].text == ">": depth -= 1
                elif ctoks[k].text == ">>": depth -= 2
                k += 1
                if depth <= 0: break
        if ctoks[k].text != "(":
            continue
        pc = rustlex.match_close(ctoks, k)
        # find body brace or terminating ';'
        depth = 0
        seen_clause = False
        m = pc + 1
        body = None
        while m < n:
            tt = ctoks[m]
            if tt.kind == "punct":
                if tt.text in ("(", "["): depth += 1
                elif tt.text in (")", "]"): depth -= 1
                elif tt.text == ";" and depth == 0: break
                elif tt.text == "{" and depth == 0:
                    prev = ctoks[m-1]
                    if not seen_clause or (prev.kind == "punct" and prev.text == ","):
                        body = m; break
                    else:
                        m = rustlex.match_close(ctoks, m)
            elif tt.kind == "ident" and tt.text in ("requires", "ensures", "decreases", "recommends", "opens_invariants", "no_unwind") and depth == 0:
                seen_clause = True
            m += 1
        if body is None:
            out.append({"name": name, "mode": mode, "external": external, "has_body": False,
                        "line_start": line_of(text, start_tok.start), "line_end": line_of(text, ctoks[min(m, n-1)].end),
                        "has_requires": False})
            continue
        bc = rustlex.match_close(ctoks, body)
        has_req = any(x.kind == "ident" and x.text == "requires" for x in ctoks[pc+1:body])
        out.append({"name": name, "mode": mode, "external": external, "has_body": True,
                    "line_start": line_of(text, start_tok.start), "line_end": line_of(text, ctoks[bc].end),
                    "body_open": ctoks[body].start, "body_close": ctoks[bc].start, "has_requires": has_req,
                    "sig_line": line_of(text, t.start)})
    return out

def vacuity_variant(text):
    """insert `assert(false);` at the start of every non-spec, non-external fn body.
    Returns (variant_text, list of (fn name, line of the inserted assert in the variant))."""
    # only functions inside the verus! { } macro are verified code
    vm = re.search(r"\bverus!\s*\{", text)
    vlo = vm.end() if vm else 0
    vhi = text.rfind("} // verus!")
    if vhi < 0: vhi = len(text)
    fns = [f for f in fn_table(text) if f["has_body"] and f["mode"] != "spec" and not f["external"] and vlo <= f["body_open"] < vhi]
    fns.sort(key=lambda f: f["body_open"])
    out = []
    pos = 0
    probes = []
    MARK = " assert(false); /*VACUITY-PROBE*/ "
    # Verus requires `hide(f);` / `reveal(f);` header statements to come first in a body: the probe goes right after them
    # (they only remove / add definitions, they cannot make a contradictory context consistent)
    HDR = re.compile(r"(?:\s*(?:hide|reveal)\s*\(\s*[A-Za-z_][A-Za-z0-9_:]*\s*\)\s*;(?:[ \t]*//[^\n]*)?)+")
    for f in fns:
        ins = f["body_open"] + 1
        mh = HDR.match(text, ins)
        if mh: ins = mh.end()
        out.append(text[pos:ins])
        if mh: out.append("\n")      # the header may end in a `//` comment
        out.append(MARK)
        pos = ins
    out.append(text[pos:])
    vt = "".join(out)
    # lines of probes
    for f, m in zip(fns, re.finditer(re.escape("/*VACUITY-PROBE*/"), vt)):
        probes.append((f["name"], line_of(vt, m.start()), f["has_requires"]))
    return vt, probes

TRUST_PATTERNS = [r"\bassume\s*\(", r"\badmit\s*\(", r"external_body", r"\bassume_specification\b",
                  r"\buninterp\b", r"#\[verifier::external\b", r"\bunsafe\b", r"external_type_specification",
                  r"external_fn_specification", r"#\[verifier::exec_allows_no_decreases_clause\]", r"rlimit\s*\("]

def trusted_scan(text):
    found = []
    lines = text.split("\n")
    for n, l in enumerate(lines, 1):
        code = l.split("//")[0]
        for p in TRUST_PATTERNS:
            if re.search(p, code):
                desc = l.strip()
                if re.fullmatch(r"#\[[^\]]*\]", desc):
                    # attribute-only line: name the item it applies to
                    for k in range(n, min(n + 6, len(lines))):
                        m = re.search(r"\b(fn|struct|enum|impl|type)\s+[A-Za-z_][A-Za-z0-9_<>:, ]*", lines[k])
                        if m: desc += " " + m.group(0).strip(); break
                found.append((n, p, desc))
                break
    return found

if __name__ == "__main__":
    import argparse
    ap = argparse.ArgumentParser()
    ap.add_argument("unit")
    ap.add_argument("--repo", default="/repo")
    ap.add_argument("-o", "--out", default=None)
    ap.add_argument("--vacuity", action="store_true")
    a = ap.parse_args()
    tmpl = a.unit if os.path.exists(a.unit) else os.path.join(VC, "units", a.unit + ".rs.tmpl")
    try:
        text, meta = generate(a.repo, tmpl)
    except ToolError as e:
        print("UNDECIDED", e); sys.exit(2)
    if a.vacuity:
        text, probes = vacuity_variant(text)
    if a.out:
        open(a.out, "w").write(text)
        json.dump(meta, open(a.out + ".map.json", "w"))
    else:
        sys.stdout.write(text)
