#!/bin/bash
# re-run every stored behaviour-preserving edit (benign/<id>/patch.diff) against the current checks, N at a time
# usage: tools/benignpass.sh [jobs] [egrep filter on the edit id]     prints one line per edit: <id> <exit codes per check>; exit 1 anywhere is a FALSE ALARM
cd "$(dirname "$0")/.."
ls benign | grep -E "${2:-.}" | xargs -P "${1:-4}" -I{} sh -c 'python3 tools/benigntest.py {} benign/{}/patch.diff --no-suite --jobs 2 2>&1 | grep -E "^check " | tr "\n" " "; echo " <- {}"'
