#!/bin/bash
# usage: mutest.sh <prop> <file> <python-regex-from> <to>    -- developer aid: run a check against a mutated scratch copy
set -e
W=/tmp/mw-$$
git -C /repo worktree add -q --detach $W HEAD
trap "git -C /repo worktree remove --force $W" EXIT
python3 - "$W/$2" "$3" "$4" <<'PY'
import sys,re
p,frm,to=sys.argv[1:4]
s=open(p).read()
n=len(re.findall(frm,s))
assert n>=1, "pattern not found"
s=re.sub(frm,to,s,count=1)
open(p,'w').write(s)
print("mutated",p,"occurrences",n)
PY
set +e
python3 /verif/tools/run_check.py $1 --repo $W
echo "rc=$?"
